"""Driver for clisim: C18 (jp reports exactly what the library computes)."""
import json
import os
import re
import subprocess
import time

from common import (run_dir, HarnessError, Report, cargo_build, ddmin, pmap, run, scratch, seed, sim_dir, target_dir, WORK)


def build_shim():
    src = os.path.join(sim_dir(), "clisim", "shim", "sysshim.c")
    out = os.path.join(target_dir("shim"), "sysshim.so")
    os.makedirs(os.path.dirname(out), exist_ok=True)
    if not os.path.exists(out) or os.path.getmtime(out) < os.path.getmtime(src):
        p = subprocess.run(["cc", "-O2", "-fPIC", "-shared", "-Wall", "-o", out, src, "-ldl"],
                           stdout=subprocess.PIPE, stderr=subprocess.STDOUT, text=True)
        if p.returncode != 0:
            raise HarnessError("cannot build sysshim.so: %s" % p.stdout[-2000:])
    return out


def build_all():
    jp = cargo_build("jmespath-cli", "stable_default", bin_name="jp")
    sim = cargo_build("clisim", "stable_default")
    return jp, sim, build_shim()


def parse_log(path):
    rs, vs, infos, stats, samples, ended = {}, [], [], None, [], False
    cases = {}
    with open(path) as f:
        for line in f:
            if line.startswith("R "):
                p = line.split()
                rs[int(p[1])] = p[1:]
            elif line.startswith("V "):
                p = line.rstrip("\n").split(" ", 3)
                vs.append({"idx": int(p[1]), "clause": p[2], "detail": json.loads(p[3])})
            elif line.startswith("CASE "):
                p = line.rstrip("\n").split(" ", 2)
                cases[int(p[1])] = json.loads(p[2])
            elif line.startswith("I "):
                p = line.rstrip("\n").split(" ", 3)
                infos.append({"idx": int(p[1]), "clause": p[2], "detail": json.loads(p[3])})
            elif line.startswith("STATS "):
                stats = json.loads(line[6:])
            elif line.startswith("SAMPLE "):
                samples.append(json.loads(line[7:]))
            elif line.startswith("END"):
                ended = True
    if not ended:
        raise HarnessError("clisim log %s is incomplete (simulator died?)" % path)
    for v in vs:
        v["case"] = cases.get(v["idx"])
    return rs, vs, infos, stats, samples


def sim_exec(bins, case_obj, tag, verbose=False):
    jp, sim, shim = bins
    d = os.path.join(run_dir(), "c18exec")
    os.makedirs(d, exist_ok=True)
    path = os.path.join(d, "case_%s.json" % tag)
    with open(path, "w") as f:
        json.dump(case_obj, f)
    cmd = [sim, "exec", "--file", path, "--jp", jp, "--shim", shim, "--work", d] + (["--verbose"] if verbose else [])
    p = run(cmd, timeout=120)
    if p.returncode != 0:
        raise HarnessError("clisim exec exited %s: %s" % (p.returncode, p.stderr.decode(errors="replace")[-1500:]))
    out = p.stdout.decode(errors="replace")
    vs = []
    for line in out.splitlines():
        if line.startswith("V "):
            q = line.split(" ", 3)
            vs.append({"clause": q[2], "detail": json.loads(q[3])})
    return vs, out


def group(args):
    bins, sd, g, gsize, d, mode, stride = args
    jp, sim, shim = bins
    outs = []
    for rep_i in ("a", "b"):  # two processes, same-length scratch paths: outputs and syscall traces must be identical
        work = os.path.join(d, "w%s_%s%04d" % (rep_i, mode[0], g))
        os.makedirs(work, exist_ok=True)
        path = os.path.join(d, "%s_%d_%s.log" % (mode, g, rep_i))
        if mode == "grid":
            cmd = [sim, "rungrid", "--start", str(g), "--stride", str(stride)]
        else:
            cmd = [sim, "run", "--seed", str(sd), "--start", str(g * gsize), "--count", str(gsize),
                   "--samples", "2" if (g == 0 and rep_i == "a") else "0"]
        cmd += ["--jp", jp, "--shim", shim, "--work", work, "--out", path]
        p = run(cmd, timeout=(1200 if gsize <= 2000 else 7200))
        if p.returncode != 0:
            raise HarnessError("clisim %s exited %s: %s" % (mode, p.returncode, p.stderr.decode(errors="replace")[-1500:]))
        outs.append(parse_log(path))
        os.remove(path)
    a, b = outs
    issues = [(mode, v["clause"], v["idx"], v["detail"], v.get("case")) for v in a[1]]
    for i, f in a[0].items():
        if b[0].get(i) != f:
            issues.append((mode, "nondeterministic", i,
                           "run #%d: status / stdout / syscall trace differ between two executions of the same case: %s vs %s" % (
                               i, f, b[0].get(i)), None))
    return {"issues": issues, "stats": a[3], "n": len(a[0]), "samples": a[4], "infos": a[2]}


PANIC_AT = re.compile(r"panicked at ([^\s:]+):(\d+)")


def signature(clause, detail):
    """Stable identity of *what* fails (for de-duplication and known findings)."""
    if clause == "panic":
        m = PANIC_AT.search(detail)
        if m:
            path = m.group(1)
            for marker in ("jmespath/src/", "jmespath-cli/src/"):
                if marker in path:
                    path = marker + path.split(marker, 1)[1]
            return "panic@%s:%s" % (path, m.group(2))
    if clause in ("wrong-status", "stdout-on-failure", "no-diagnosis"):
        m = re.search(r"expected failure \(([^)]*)\)|failure \(([^)]*)\)", detail)
        if m:
            return "%s:%s" % (clause, (m.group(1) or m.group(2)))
    return clause


def case_with_bytes(case):
    c = dict(case)
    if "expr_bytes" not in c:
        c["expr_bytes"] = list(bytes.fromhex(c.get("expr_hex", "")))
    if "input_bytes" not in c:
        c["input_bytes"] = list(bytes.fromhex(c.get("input_hex", "")))
    for k in ("expr_hex", "input_hex", "expr_text", "input_text"):
        c.pop(k, None)
    return c


def annotate(case):
    c = dict(case)
    c["expr_text"] = bytes(c["expr_bytes"]).decode("utf-8", "replace")
    c["input_text"] = bytes(c["input_bytes"]).decode("utf-8", "replace")
    return c


def minimise(bins, case, sig, deadline):
    case = case_with_bytes(case)

    def holds(c):
        vs, _ = sim_exec(bins, {"case": c}, "m")
        return any(signature(v["clause"], v["detail"]) == sig for v in vs)

    if not holds(case):
        return case, False
    for key in ("plan", "real_fs", "env"):
        if case.get(key):
            def t(items, key=key):
                c = dict(case)
                c[key] = items
                return holds(c)
            if t([]):
                case[key] = []
            elif len(case[key]) > 1:
                case[key] = ddmin(case[key], t, deadline)
    for flag in ("unquoted", "ast"):
        if case.get(flag):
            c = dict(case)
            c[flag] = False
            if holds(c):
                case = c
    for key in ("input_bytes", "expr_bytes"):
        if len(case[key]) > 1 and time.time() < deadline:
            def t(items, key=key):
                c = dict(case)
                c[key] = items
                return holds(c)
            case[key] = ddmin(case[key], t, deadline)
    for key, simple in (("expr_via", "argv"), ("input_via", "stdin_file")):
        if case.get(key) != simple:
            c = dict(case)
            c[key] = simple
            try:
                if holds(c):
                    case = c
            except HarnessError:
                pass
    return case, True


def c18_check(tier, replay=None):
    t_start = time.time()
    sd = seed()
    bins = build_all()
    if replay:
        with open(replay) as f:
            obj = json.load(f)
        vs, out = sim_exec(bins, {"case": obj["case"]}, "r", verbose=True)
        want = obj.get("signature")
        hit = [v for v in vs if want is None or signature(v["clause"], v["detail"]) == want]
        print(out)
        if hit:
            print("VIOLATION property=C18 replay=%s" % replay)
            return 1
        print("replay %s: no violation on this tree" % replay)
        return 0
    rep = Report("C18", tier)
    rep.t0 = t_start
    d = scratch("c18")
    total = 40000 if tier == "quick" else 1200000
    nproc = 16
    gsize = 1250 if tier == "quick" else 5000
    ngroups = (total + gsize - 1) // gsize
    jobs = [(bins, sd, g, 0, d, "grid", nproc) for g in range(nproc)]
    jobs += [(bins, sd, g, gsize, d, "seeded", 0) for g in range(ngroups)]
    res = pmap(group, jobs)
    counters, cells, cells_nt, traces = {}, set(), set(), set()
    n = 0
    samples, issues, infos = [], [], []
    for r in res:
        for k, v in r["stats"]["counters"].items():
            counters[k] = counters.get(k, 0) + v
        cells.update(r["stats"]["cells"])
        cells_nt.update(r["stats"]["cells_nontrivial"])
        traces.update(r["stats"]["traces"])
        n += r["n"]
        samples += r["samples"]
        issues += r["issues"]
        infos += r["infos"]
    deadline = time.time() + (90 if tier == "quick" else 300)
    seen = {}
    for mode, clause, idx, detail, case_in_log in sorted(issues, key=lambda x: (x[0], x[2])):
        sig = signature(clause, detail)
        if sig in seen:
            seen[sig] += 1
            continue
        seen[sig] = 1
        if len(seen) > 6:
            continue
        jp, sim, shim = bins
        if case_in_log is not None:
            case = case_in_log
        elif mode == "grid":
            p = run([sim, "grid"], timeout=60)
            case = json.loads(p.stdout.decode().splitlines()[idx])["case"]
        else:
            p = run([sim, "gen", "--seed", str(sd), "--index", str(idx)], timeout=60)
            case = json.loads(p.stdout)["case"]
        if clause == "nondeterministic":
            mc, reproduced = case_with_bytes(case), False
        else:
            mc, reproduced = minimise(bins, case, sig, deadline)
        obj = {"property": "C18", "seed": sd, "mode": mode, "index": idx, "clause": clause, "signature": sig,
               "case": annotate(mc), "detail": detail, "reproduced_in_fresh_process": reproduced}
        if reproduced:
            vs, out = sim_exec(bins, {"case": mc}, "x", verbose=True)
            obj["observed"] = out.splitlines()[:60]
            if vs:
                detail = vs[0]["detail"]
        rep.violation(sig, obj, "%s (%s run #%d; minimised: jp %s%s%s expr=%r input=%r plan=%r): %s" % (
            sig, mode, idx, "-u " if mc.get("unquoted") else "", "--ast " if mc.get("ast") else "",
            "%s/%s" % (mc.get("expr_via"), mc.get("input_via")),
            bytes(mc["expr_bytes"]).decode("utf-8", "replace"), bytes(mc["input_bytes"]).decode("utf-8", "replace")[:200],
            (mc.get("plan") or []) + ["env %s=%s" % (k, v) for k, v in (mc.get("env") or [])], detail))
    wall = max(time.time() - rep.t0, 1e-9)
    info_summary = {}
    for i in infos:
        info_summary[i["clause"]] = info_summary.get(i["clause"], 0) + 1
    coverage = {
        "evaluations": n,
        "distinct_nontrivial": len(cells_nt),
        "rule": "one evaluation = one execution of the real jp binary (built from the current tree) under the sysshim "
                "LD_PRELOAD seam, for a generated (flags, expression, input bytes, fault plan) case: a fixed grid of flag "
                "configurations x program classes x input classes x fault kinds, plus seeded cases; every case is executed "
                "twice (two simulator processes) and must give identical status, stdout and syscall trace. distinct = "
                "distinct cells (expression source, input source, -u, --ast, illegal combination, expression class, input "
                "class, fault kinds, expected outcome); non-trivial = a fault was planned or the expected outcome is a failure.",
        "samples": samples[:2],
        "distinct_cells": len(cells),
        "distinct_syscall_traces": len(traces),
        "runs_per_hour": int(n * 2 / wall * 3600),
        "seeds": {"batch_seed": sd, "seeded_cases": total, "grid_cases": n - total, "derivation": "case i uses mix(VERIF_SEED, i)"},
        "simulated_time": "jp has no timers; logical steps only (syscalls decided by the shim); a 20 s real-time budget per run guards 'exits'",
        "faults_fired": {k[len("fault.fired."):]: v for k, v in counters.items() if k.startswith("fault.fired.")},
        "faults_planned_not_reached": {k[len("fault.planned_not_reached."):]: v for k, v in counters.items()
                                       if k.startswith("fault.planned_not_reached.")},
        "expected_outcomes": {k[7:]: v for k, v in counters.items() if k.startswith("expect.")},
        "expression_classes": {k[5:]: v for k, v in counters.items() if k.startswith("expr.")},
        "input_classes": {k[6:]: v for k, v in counters.items() if k.startswith("input.")},
        "sources": {k[4:]: v for k, v in counters.items() if k.startswith("via.")},
        "informational_runs_not_alarmed": {
            "what": "faults outside the statement's quantifier: EINTR on read, short or failing writes to stdout/stderr",
            "runs": counters.get("informational_runs", 0),
            "deviations_seen": info_summary,
        },
        "components_real": ["jp binary: jmespath-cli/src/main.rs + jmespath library + clap, release build", "libc, dynamic loader"],
        "components_stubbed": ["kernel side of read/open/openat/write/writev on stdin, the expression file, the JSON file "
                               "and stdout/stderr: decided by sysshim.c from the fault plan"],
        "exhaustive": False,
    }
    return rep.finish(coverage, [
        "oracle = the library called in-process on the bytes actually delivered + serde_json pretty printing; diagnosis text is not compared, only required to exist",
        "clap's own refusals (conflicting / missing expression source) count as a diagnosis",
        "only UTF-8, NUL-free argv not starting with '-' is generated (other expressions go through -e)",
        "jp runs in an otherwise empty environment plus, in a fifth of the cases, 1-3 variables from a pool of plausible names extended by every name jp is seen to query (getenv is traced by the shim); isatty on fd 0/1/2 can be made to answer 1",
        "EBADF on stdin is not injected (std documents a closed stdin as empty)",
        "sampling: a clean batch is evidence, not proof",
    ])
