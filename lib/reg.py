"""Driver for regsim: C15 (calls follow the runtime registry)."""
import json
import os
import time

from common import (run_dir, HarnessError, Report, cargo_build, ddmin, pmap, run, scratch, seed, WORK)


def parse_log(path):
    hs, vs, stats, samples, ended = {}, [], None, [], False
    with open(path) as f:
        for line in f:
            if line.startswith("H "):
                p = line.split()
                hs[int(p[1])] = p[1:]
            elif line.startswith("V "):
                p = line.rstrip("\n").split(" ", 4)
                vs.append({"idx": int(p[1]), "invariant": p[2], "op_index": int(p[3]), "detail": json.loads(p[4])})
            elif line.startswith("STATS "):
                stats = json.loads(line[6:])
            elif line.startswith("SAMPLE "):
                samples.append(json.loads(line[7:]))
            elif line.startswith("END"):
                ended = True
    if not ended:
        raise HarnessError("regsim log %s is incomplete" % path)
    return hs, vs, stats, samples


def sim_exec(binary, obj, verbose=False):
    d = os.path.join(run_dir(), "exec")
    os.makedirs(d, exist_ok=True)
    path = os.path.join(d, "reg_%d_%d.json" % (os.getpid(), id(obj) % 100000))
    with open(path, "w") as f:
        json.dump(obj, f)
    cmd = [binary, "exec", "--file", path] + (["--verbose"] if verbose else [])
    p = run(cmd, timeout=300)
    os.remove(path)
    if p.returncode != 0:
        raise HarnessError("regsim exec exited %s: %s" % (p.returncode, p.stderr.decode(errors="replace")[-1500:]))
    hs, vs, log = [], [], []
    for line in p.stdout.decode(errors="replace").splitlines():
        if line.startswith("H "):
            hs.append(line)
        elif line.startswith("V "):
            q = line.split(" ", 4)
            vs.append({"invariant": q[2], "op_index": int(q[3]), "detail": json.loads(q[4])})
        elif line.startswith("L "):
            log.append(line[2:])
    return hs, vs, log


def group(args):
    binary, sd, g, gsize, d = args
    outs = []
    for rep_i in (0, 1):  # two processes: different RandomState keys / ASLR, identical logs required
        path = os.path.join(d, "g%d_%d.log" % (g, rep_i))
        p = run([binary, "run", "--seed", str(sd), "--start", str(g * gsize), "--count", str(gsize), "--out", path,
                 "--samples", "2" if (g == 0 and rep_i == 0) else "0"], timeout=3600)
        if p.returncode != 0:
            raise HarnessError("regsim run exited %s: %s" % (p.returncode, p.stderr.decode(errors="replace")[-1500:]))
        outs.append(parse_log(path))
        os.remove(path)
    a, b = outs
    issues = [("in_process", v["invariant"], v["idx"], v["detail"]) for v in a[1]]
    for i, f in a[0].items():
        if b[0].get(i) != f:
            issues.append(("process_dependence", "registry-follows-history", i,
                           "history #%d produced a different log in a second process (different hash keys / addresses): %s vs %s" % (
                               i, f, b[0].get(i))))
    return {"issues": issues, "stats": a[2], "n": len(a[0]), "ops": sum(int(f[1]) for f in a[0].values()),
            "calls": sum(int(f[2]) for f in a[0].values()), "samples": a[3]}


def predicate(binary, kind, invariant):
    def test(ops):
        obj = {"property": "C15", "ops": ops}
        if kind == "in_process":
            _, vs, _ = sim_exec(binary, obj)
            return any(v["invariant"] == invariant for v in vs)
        ref = sim_exec(binary, obj)[0]
        for _ in range(5):
            if sim_exec(binary, obj)[0] != ref:
                return True
        return False
    return test


def c15_check(tier, replay=None):
    t_start = time.time()
    sd = seed()
    binary = cargo_build("regsim", "stable_default")
    if replay:
        with open(replay) as f:
            obj = json.load(f)
        bad = predicate(binary, obj.get("kind", "in_process"), obj.get("invariant"))(obj["ops"])
        if bad:
            _, vs, log = sim_exec(binary, obj, verbose=True)
            for l in log:
                print("  " + l[:500])
            for v in vs:
                print("  %s (op %d): %s" % (v["invariant"], v["op_index"], v["detail"][:1500]))
            print("VIOLATION property=C15 replay=%s" % replay)
            return 1
        print("replay %s: no violation on this tree" % replay)
        return 0
    rep = Report("C15", tier)
    rep.t0 = t_start
    total = 64000 if tier == "quick" else 5000000
    gsize = 4000 if tier == "quick" else 40000
    ngroups = (total + gsize - 1) // gsize
    d = scratch("c15")
    res = pmap(group, [(binary, sd, g, gsize, d) for g in range(ngroups)])
    counters, states, trans, shapes, shapes_nt = {}, set(), set(), set(), set()
    n = ops = calls = 0
    samples, issues = [], []
    for r in res:
        for k, v in r["stats"]["counters"].items():
            counters[k] = counters.get(k, 0) + v
        states.update(r["stats"]["states"])
        trans.update(r["stats"]["transitions"])
        shapes.update(r["stats"]["shapes"])
        shapes_nt.update(r["stats"]["shapes_nontrivial"])
        n += r["n"]
        ops += r["ops"]
        calls += r["calls"]
        samples += r["samples"]
        issues += r["issues"]
    deadline = time.time() + (60 if tier == "quick" else 240)
    seen = set()
    for kind, inv, idx, detail in sorted(issues, key=lambda x: x[2]):
        if (kind, inv) in seen or len(seen) >= 3:
            continue
        seen.add((kind, inv))
        p = run([binary, "gen", "--seed", str(sd), "--index", str(idx)], timeout=60)
        h = json.loads(p.stdout)
        test = predicate(binary, kind, inv)
        reproduced = test(h["ops"])
        ops_min = h["ops"]
        if reproduced:
            ops_min = ddmin(h["ops"], test, deadline)
            detail += " | minimised from %d to %d ops" % (len(h["ops"]), len(ops_min))
        obj = {"property": "C15", "seed": sd, "index": idx, "kind": kind, "invariant": inv, "ops": ops_min,
               "detail": detail, "reproduced_in_fresh_process": reproduced}
        if reproduced:
            _, vs, log = sim_exec(binary, obj, verbose=True)
            obj["trace"] = log
            obj["observed"] = vs
            if vs:
                detail = vs[0]["detail"] + " | " + detail
        rep.violation("%s:%s" % (kind, inv), obj, "%s / %s at history #%d: %s" % (kind, inv, idx, detail))
    wall = max(time.time() - rep.t0, 1e-9)
    coverage = {
        "evaluations": n,
        "distinct_nontrivial": len(shapes_nt),
        "rule": "one evaluation = one seeded registry history (5-40 ops over 1-3 runtimes: register recording function "
                "(bare closure or signed CustomFunction, optional injected failure) / deregister / register built-ins / "
                "new runtime / get / call expression), checked against a map reference model after every operation and "
                "run in two processes. distinct = distinct history shapes (sequence of op kind + outcome class); "
                "non-trivial = some name registered at least twice, re-added after removal, a custom function shadowing "
                "a built-in, or built-ins re-registered over a shadow.",
        "samples": samples[:2],
        "distinct_shapes": len(shapes),
        "states": len(states),
        "transitions": len(trans),
        "ops_executed": ops,
        "call_expressions": calls,
        "processes": 2 * ngroups,
        "runs_per_hour": int(n * 2 / wall * 3600),
        "seeds": {"batch_seed": sd, "first_history": 0, "last_history": n - 1, "derivation": "history i uses mix(VERIF_SEED, i)"},
        "simulated_time": "no clock in the system under test; logical steps only: %d operations" % ops,
        "faults_fired": {"injected_function_error": counters.get("fault.fired.injected_function_error", 0)},
        "probes": {k[6:]: v for k, v in counters.items() if k.startswith("probe.")},
        "call_outcomes": {k[5:]: v for k, v in counters.items() if k.startswith("call.")},
        "op_counts": {k[3:]: v for k, v in counters.items() if k.startswith("op.")},
        "components_real": ["Runtime::{new,register_function,deregister_function,get_function,register_builtin_functions,compile}",
                            "CustomFunction + Signature validation", "closure-as-Function impl", "interpreter call site",
                            "parser (trusted to give the tree the reference evaluator walks)"],
        "components_stubbed": ["none; registered functions are the simulator's recording functions"],
        "exhaustive": False,
    }
    return rep.finish(coverage, [
        "reference model: BTreeMap per runtime + a small evaluator over the parsed tree for the argument forms the generator emits",
        "mini reference semantics for the six built-ins the generator calls (abs, length, not_null, type, to_array, map); other built-ins are identified by known answers on a probe argument",
        "where several unregistered names occur in one expression any of them is accepted in the unknown-function error; invocation logs are compared as multisets (positional argument order is checked, temporal order of sibling calls is not)",
        "sampling: a clean batch is evidence, not proof",
    ])
