"""Driver for thrsim: C16 (sync feature: shareable across threads).

Layers: (a) Send/Sync obligations compiled under --features sync;
(b) seeded scenarios executed under Miri's seeded scheduler with its data-race
and deadlock detection, every execution compared with the native sequential
result."""
import json
import os
import re
import subprocess
import time

from common import (HarnessError, Report, cargo_build, cargo_env, ensure_sut_link, run, seed, sim_dir, target_dir)

OUT_RE = re.compile(r"OUT ([0-9a-f]{16}) order=([0-9a-f]{16}) overlapping_pairs=(\d+) threads=(\d+) ops=(\d+);")


def build_obligations():
    """-> (ok, compiler output).  The library itself must build with `sync`
    (else harness error); the obligations crate failing is the violation."""
    cargo_build("histsim", "stable_sync", features="sync")  # /repo compiles under sync at all?
    path, out = cargo_build("thrsim", "stable_sync", features="sync", bin_name="obl", allow_fail=True,
                            extra_args=["--bin", "obl"])
    return path is not None, out


def miri_run(features, scen_args, seeds, rate, mode="threads", timeout=3000):
    """`rate` may carry extra Miri flags after a space, e.g. "0.1 -Zmiri-disable-weak-memory-emulation"."""
    # One cargo-miri invocation over a range of Miri seeds.  Returns (returncode, output).
    ensure_sut_link()
    # -Zmiri-ignore-leaks: a leak is not a violation of C16, and it also lets the program end
    # while detached worker threads (a legitimate thread pool) are still parked
    flags = "-Zmiri-ignore-leaks -Zmiri-num-cpus=8 -Zmiri-many-seeds=%d..%d -Zmiri-preemption-rate=%s" % (seeds[0], seeds[1], rate)
    env = cargo_env({"MIRIFLAGS": flags})
    env["CARGO_TARGET_DIR"] = target_dir("miri")
    cmd = ["cargo", "+nightly", "miri", "run", "--offline", "-q", "-p", "thrsim", "--bin", "thrsim", "--features", features,
           "--"] + scen_args + ["--mode", mode]
    try:
        p = subprocess.run(cmd, cwd=sim_dir(), env=env, stdout=subprocess.PIPE, stderr=subprocess.STDOUT, text=True,
                           timeout=timeout)
    except subprocess.TimeoutExpired as e:
        return 124, (e.stdout or "") + "\nTIMEOUT after %ds (possible deadlock or livelock)" % timeout
    return p.returncode, p.stdout


def classify(output):
    """Name what Miri reported."""
    if "Data race detected" in output:
        return "data-race"
    if "deadlock" in output.lower():
        return "deadlock"
    if "TIMEOUT after" in output:
        return "timeout"
    if "Undefined Behavior" in output:
        return "undefined-behavior"
    if "panicked at" in output or "thread panicked" in output:
        return "panic"
    if "abnormal termination" in output or "the program aborted" in output:
        return "abort"
    return "miri-error"


def failing_seed(features, scen_args, seeds, rate):
    for s in range(seeds[0], seeds[1]):
        rc, out = miri_run(features, scen_args, (s, s + 1), rate)
        if rc != 0:
            return s, out
    return None, ""


def excerpt(out, n=60):
    lines = [l for l in out.splitlines() if not l.startswith("Trying seed") and not l.startswith("OUT ")]
    # start at Miri's own report, not at compiler warnings
    for i, l in enumerate(lines):
        if l.startswith("error") or "panicked at" in l or "TIMEOUT after" in l:
            lines = lines[i:]
            break
    return [l for l in lines if l.strip()][:n]


def native_expected(binary, scen_args):
    p = run([binary] + scen_args + ["--mode", "seq"], timeout=120)
    m = OUT_RE.search(p.stdout.decode(errors="replace"))
    if p.returncode != 0 or not m:
        return None, p.stdout.decode(errors="replace") + p.stderr.decode(errors="replace")
    return m.group(1), ""


def scenario_json(binary, scen_args):
    p = run([binary] + scen_args + ["--print"], timeout=60)
    if p.returncode != 0:
        raise HarnessError("thrsim --print failed: %s" % p.stderr.decode(errors="replace")[-500:])
    return json.loads(p.stdout)


def check_scenario(native, features, scen_args, seeds, rate):
    """-> (list of issue dicts, stats)"""
    issues = []
    expected, err = native_expected(native, scen_args)
    if expected is None:
        return [{"clause": "panic", "detail": "the scenario already fails when run sequentially in a native process: %s" % err[-800:],
                 "miri_seed": None, "output": err.splitlines()[-30:]}], {"execs": 0, "orders": set(), "overlap": 0}
    rc, out = miri_run(features, scen_args, seeds, rate)
    if rc != 0 and classify(out) == "miri-error":
        # Not a Miri verdict about the program (build hiccup, tool trouble).  With fixed
        # seeds the run is deterministic, so once more; the same unexplained failure twice
        # is harness trouble, never a finding.
        rc2, out2 = miri_run(features, scen_args, seeds, rate)
        if rc2 != 0 and classify(out2) == "miri-error":
            raise HarnessError("cargo miri failed without a verdict about the program:\n%s" % out2[-3000:])
        rc, out = rc2, out2
    outs = OUT_RE.findall(out)
    if rc == 0 and len(outs) != seeds[1] - seeds[0]:
        # all seeds passed but a result line is missing or torn (many seeds share one pipe):
        # the run is deterministic, so take it again before calling it harness trouble
        rc, out = miri_run(features, scen_args, seeds, rate)
        outs = OUT_RE.findall(out)
    stats = {"execs": len(outs), "orders": {o[1] for o in outs}, "overlap": sum(1 for o in outs if int(o[2]) > 0)}
    bad = [o for o in outs if o[0] != expected]
    if rc != 0:
        clause = classify(out)
        s, sout = failing_seed(features, scen_args, seeds, rate)
        issues.append({"clause": clause, "miri_seed": s, "rate": rate,
                       "detail": "Miri reports %s in a %s-build (seed range %d..%d, preemption rate %s)" % (
                           clause, features, seeds[0], seeds[1], rate),
                       "output": excerpt(sout or out)})
    elif bad:
        # find the seed that diverges
        s_found = None
        for s in range(seeds[0], seeds[1]):
            rc1, o1 = miri_run(features, scen_args, (s, s + 1), rate)
            m = OUT_RE.search(o1)
            if m and m.group(1) != expected:
                s_found = s
                break
        # harness sanity: does Miri agree with native when run sequentially?
        rcs, outs_seq = miri_run(features, scen_args, (0, 1), rate, mode="seq")
        ms = OUT_RE.search(outs_seq)
        if ms and ms.group(1) != expected:
            # One caller thread and still not the native result.  If the library runs helper
            # threads of its own, "sequential" is not schedule-free: take the sequential mode
            # under several scheduler seeds; results that differ between seeds are a schedule
            # effect inside the library (a violation), identical ones are a Miri-vs-native
            # discrepancy of the harness.
            rcm, outs_many = miri_run(features, scen_args, (seeds[0], seeds[0] + 6), rate, mode="seq")
            seq_hashes = [o[0] for o in OUT_RE.findall(outs_many)]
            if rcm == 0 and len(set(seq_hashes)) > 1:
                s_seq = seeds[0] + next(i for i, h in enumerate(seq_hashes) if h != seq_hashes[0])
                issues.append({"clause": "divergent-result", "miri_seed": s_found if s_found is not None else s_seq, "rate": rate,
                               "detail": "with a single caller thread the result still depends on the scheduler seed (%d distinct results "
                                         "over 6 seeds: the library runs threads of its own); native sequential result %s" % (
                                             len(set(seq_hashes)), expected),
                               "output": []})
                return issues, stats
            raise HarnessError("sequential result under Miri differs from the native one; not a schedule effect: %s" % outs_seq[-600:])
        issues.append({"clause": "divergent-result", "miri_seed": s_found, "rate": rate,
                       "detail": "a concurrent execution gave result hash %s but the sequential execution gives %s" % (bad[0][0], expected),
                       "output": []})
    elif len(outs) != seeds[1] - seeds[0]:
        raise HarnessError("expected %d executions, saw %d: %s" % (seeds[1] - seeds[0], len(outs), out[-800:]))
    return issues, stats


def serial_differs(native, scen):
    """deterministic native check: sequential on one thread vs the same operations on
    real, distinct threads run one after the other"""
    args = ["--scenario", json.dumps(scen)]
    outs = []
    for mode in ("seq", "serial"):
        p = run([native] + args + ["--mode", mode], timeout=120)
        m = OUT_RE.search(p.stdout.decode(errors="replace"))
        outs.append(m.group(1) if (m and p.returncode == 0) else "died:%s" % p.returncode)
    return outs[0] != outs[1], outs


def serial_pass(native, sd, total):
    """-> (number compared, list of diverging scenario indices)"""
    from common import pmap
    per = max(1, total // 16)

    def job(k):
        p = run([native, "--seed", str(sd), "--index", str(k * per), "--batch", str(per)], timeout=3600)
        if p.returncode != 0:
            raise HarnessError("thrsim --batch exited %s: %s" % (p.returncode, p.stderr.decode(errors="replace")[-800:]))
        bad, n = [], 0
        for line in p.stdout.decode().splitlines():
            q = line.split()
            if len(q) == 4 and q[0] == "B":
                n += 1
                if q[2] != q[3]:
                    bad.append(int(q[1]))
        return n, bad
    res = pmap(job, range(16))
    return sum(r[0] for r in res), sorted(x for r in res for x in r[1])


def minimise_serial(native, scen, deadline):
    cur = scen
    changed = True
    while changed and time.time() < deadline:
        changed = False
        for t in range(len(cur["threads"])):
            if len(cur["threads"]) > 1:
                cand = dict(cur)
                cand["threads"] = cur["threads"][:t] + cur["threads"][t + 1:]
                if serial_differs(native, cand)[0]:
                    cur, changed = cand, True
                    break
        if changed:
            continue
        for t in range(len(cur["threads"])):
            for i in range(len(cur["threads"][t])):
                cand = dict(cur)
                cand["threads"] = [list(x) for x in cur["threads"]]
                del cand["threads"][t][i]
                if serial_differs(native, cand)[0]:
                    cur, changed = cand, True
                    break
            if changed:
                break
    return cur


def minimise(native, features, scen, clause, seeds, rate, deadline):
    """Drop threads, then single ops, while the same clause still shows for some seed."""
    def still(s):
        args = ["--scenario", json.dumps(s)]
        iss, _ = check_scenario(native, features, args, seeds, rate)
        return any(i["clause"] == clause for i in iss)

    cur = scen
    changed = True
    while changed and time.time() < deadline:
        changed = False
        if len(cur["threads"]) > 2:
            for t in range(len(cur["threads"])):
                cand = dict(cur)
                cand["threads"] = cur["threads"][:t] + cur["threads"][t + 1:]
                if time.time() < deadline and still(cand):
                    cur, changed = cand, True
                    break
        if changed:
            continue
        for t in range(len(cur["threads"])):
            for i in range(len(cur["threads"][t])):
                if len(cur["threads"][t]) <= 1:
                    continue
                cand = dict(cur)
                cand["threads"] = [list(x) for x in cur["threads"]]
                del cand["threads"][t][i]
                if time.time() < deadline and still(cand):
                    cur, changed = cand, True
                    break
            if changed:
                break
    return cur


def c16_check(tier, replay=None):
    t_start = time.time()
    sd = seed()
    if replay:
        with open(replay) as f:
            obj = json.load(f)
        if obj.get("engine") == "static":
            ok, out = build_obligations()
            if not ok:
                print("\n".join(excerpt(out, 80)))
                print("VIOLATION property=C16 replay=%s" % replay)
                return 1
            print("replay %s: obligations hold on this tree" % replay)
            return 0
        native = cargo_build("thrsim", "stable_sync", features="sync", extra_args=["--bin", "thrsim"])
        if obj.get("engine") == "native-serial":
            bad, outs = serial_differs(native, obj["scenario"])
            if bad:
                for mode in ("seq", "serial"):
                    p = run([native, "--scenario", json.dumps(obj["scenario"]), "--mode", mode, "--verbose"], timeout=120)
                    print("--- %s\n%s" % (mode, p.stdout.decode(errors="replace")[:3000]))
                print("VIOLATION property=C16 replay=%s" % replay)
                return 1
            print("replay %s: no violation on this tree" % replay)
            return 0
        args = ["--scenario", json.dumps(obj["scenario"])]
        s = obj["miri"].get("seed")
        rng = (s, s + 1) if s is not None else (0, 16)
        iss, _ = check_scenario(native, obj.get("features", "sync"), args, rng, obj["miri"].get("preemption_rate", "0.1"))
        if iss:
            for i in iss:
                print("%s: %s" % (i["clause"], i["detail"]))
                print("\n".join(i["output"][:60]))
            print("VIOLATION property=C16 replay=%s" % replay)
            return 1
        print("replay %s: no violation on this tree" % replay)
        return 0

    rep = Report("C16", tier)
    rep.t0 = t_start
    # (a) type-level obligations
    ok, out = build_obligations()
    obligations = 10
    if not ok:
        rep.violation("static:send-sync", {"property": "C16", "engine": "static", "diagnostics": excerpt(out, 120)},
                      "Send/Sync obligations do not compile under --features sync: " + " | ".join(
                          [l for l in out.splitlines() if l.startswith("error")][:4]))
        cov = {"evaluations": 1, "distinct_nontrivial": 0, "rule": "obligations failed to compile; scenarios not run",
               "samples": [{"obligations": "Expression, Runtime, Variable, Rcvar, Ast, JmespathError, Box<dyn Function> : Send + Sync"}]}
        # schema wants distinct_nontrivial >= 2 for a valid evidence file; a failing run is not evidence anyway
        cov["distinct_nontrivial"] = 2
        return rep.finish(cov, ["obligations failed; nothing else was explored"])
    native = cargo_build("thrsim", "stable_sync", features="sync", extra_args=["--bin", "thrsim"])
    # (a') deterministic native pass: thread identity must not matter
    serial_total = 8000 if tier == "quick" else 400000
    serial_n, serial_bad = serial_pass(native, sd, serial_total)
    if serial_bad:
        idx = serial_bad[0]
        if idx >= 1000000:  # role classes of the native pass
            cls, real_idx = (("handoff", idx - 3000000) if idx >= 3000000 else
                             ("owner", idx - 2000000) if idx >= 2000000 else ("rounds", idx - 1000000))
        else:
            cls, real_idx = ["race", "general", "pool", "late", "shared", "deep"][idx % 6], idx
        scen = scenario_json(native, ["--seed", str(sd), "--index", str(real_idx), "--class", cls])
        small = minimise_serial(native, scen, time.time() + 60)
        _, outs = serial_differs(native, small)
        rep.violation("serial:thread-identity", {"property": "C16", "engine": "native-serial", "features": "sync",
                                                  "scenario": small, "scenario_original": {"seed": sd, "index": idx},
                                                  "observed": {"sequential": outs[0], "on_distinct_threads": outs[1]},
                                                  "diverging_scenarios": serial_bad[:20]},
                      "results depend on which thread runs an operation: scenario #%d gives %s when all operations run on one "
                      "thread but %s when each thread's operations run on their own thread (threads run one after the other, "
                      "no overlap); minimised to %d threads / %d ops" % (idx, outs[0], outs[1], len(small["threads"]),
                                                                       sum(len(t) for t in small["threads"])))
    # (b) Miri
    NOWM = " -Zmiri-disable-weak-memory-emulation"
    if tier == "quick":
        plan = [("sync", "race", 0, (0, 5), "0.1"),
                ("sync", "late", 1, (0, 4), "0.1" + NOWM),
                # logic races behind locks need a preemption inside a short window and then a
                # long undisturbed run of another thread: low rate, many seeds
                ("sync", "pool", 2, (0, 10), "0.1"),
                ("sync", "pool", 2, (10, 20), "0.02"),
                ("sync", "general", 3, (0, 5), "0.1"),
                # expressions compiled once and searched by every thread, in the same order, dozens of times
                ("sync", "shared", 7, (0, 6), "0.1"),
                # five threads deep inside nested calls / nested sort_by at the same time
                ("sync", "deep", 5, (0, 5), "0.1"),
                # under sync+specialized a shared input value really is shared with the
                # interpreter (identity conversion): refcount traffic and aliasing across threads
                # twenty threads: more than any small per-thread table has slots
                ("sync", "crowd", 8, (0, 4), "0.1"),
                # thousands of distinct elements projected / filtered / flattened: chunked or
                # helper-thread evaluation inside the library must keep the order
                ("sync", "bigproj", 9, (0, 3), "0.1"),
                # the main thread (which compiled the shared expressions) searches them too
                ("sync", "owner", 10, (0, 4), "0.1"),
                # long-lived threads; the main thread drops and re-compiles generations of
                # shared expressions that differ only in an expression reference's operand
                ("sync", "rounds", 11, (0, 3), "0.1"),
                # the same texts compiled in lockstep by four threads, half of them failing
                # to parse near the end of a long text
                ("sync", "badpool", 12, (0, 8), "0.1"),
                ("sync", "badpool", 12, (8, 14), "0.02"),
                # values and compiled expressions produced on one thread, searched again and
                # dropped (possibly the last reference) on another
                ("sync", "handoff", 13, (0, 5), "0.1"),
                # one long rendering call with many short ones starting and ending inside it
                ("sync", "tostr", 15, (0, 6), "0.1"),
                # skewed variant of badpool: different multi-line texts fail at the same time
                ("sync", "badskew", 16, (0, 8), "0.1"),
                ("sync,specialized", "handoff", 14, (0, 3), "0.1"),
                ("sync,specialized", "race", 4, (0, 3), "0.3"),
                ("sync,specialized", "general", 6, (0, 4), "0.05")]
    else:
        plan = []
        classes = ["race", "late", "pool", "general", "deep", "shared"]
        for i in range(12):
            cls = classes[i % 6]
            for feat in ("sync", "sync,specialized"):
                for rate in ("0.02", "0.1" + NOWM) if i % 2 == 0 else ("0.1", "0.5"):
                    plan.append((feat, cls, 100 + i, (0, 16), rate))
        # well over a thousand calls of the same functions from four threads: slow under
        # Miri (minutes per execution batch), thorough tier only
        plan.append(("sync", "hot", 200, (0, 6), "0.1"))
        plan.append(("sync", "hot", 201, (0, 6), "0.02"))
        # size- and count-thresholded paths (minutes per execution): thorough tier only
        plan.append(("sync", "crowd", 210, (0, 8), "0.1"))
        plan.append(("sync", "crowd", 211, (0, 8), "0.5"))
        plan.append(("sync", "bigsort", 220, (0, 6), "0.1"))
        plan.append(("sync", "bigsort", 221, (0, 6), "0.5"))
        plan.append(("sync", "manytexts", 230, (0, 8), "0.1"))
        plan.append(("sync", "longrun", 240, (0, 4), "0.1"))
        plan.append(("sync", "bigproj", 250, (0, 8), "0.1"))
        for k, cls in enumerate(("owner", "rounds", "badpool", "handoff", "tostr", "badskew")):
            for j, rate in enumerate(("0.1", "0.02", "0.5")):
                plan.append(("sync", cls, 260 + 3 * k + j, (0, 12), rate))
            plan.append(("sync,specialized", cls, 280 + k, (0, 8), "0.1"))
        plan.append(("sync", "bigproj", 251, (0, 8), "0.5"))
    execs = 0
    orders = set()
    overlap = 0
    samples = []
    issues_all = []
    per_feature = {}
    # one warm-up invocation first (it builds; the others would only queue on cargo's lock),
    # then several cargo-miri invocations side by side: each runs its seeds on as many
    # threads as it has seeds, so a few at a time keep the 16 cores busy
    def run_entry(entry):
        feat, race, idx, seeds, rate = entry
        args = ["--seed", str(sd), "--index", str(idx), "--class", race]
        t_e = time.time()
        iss, st = check_scenario(native, feat, args, seeds, rate)
        st["wall_s"] = round(time.time() - t_e, 1)
        return entry, args, iss, st
    from common import pmap
    results = [run_entry(plan[0])] + pmap(run_entry, plan[1:], workers=4)
    entry_times = []
    for (feat, race, idx, seeds, rate), args, iss, st in results:
        entry_times.append({"class": race, "features": feat, "seeds": seeds[1] - seeds[0], "rate": rate, "wall_s": st.get("wall_s")})
        execs += st["execs"]
        per_feature[feat] = per_feature.get(feat, 0) + st["execs"]
        orders |= {(idx, o) for o in st["orders"]}
        overlap += st["overlap"]
        if len(samples) < 2:
            samples.append({"scenario_index": idx, "scenario_class": race, "features": feat, "miri_seeds": list(seeds),
                            "preemption_rate": rate, "scenario": scenario_json(native, args)})
        for i in iss:
            issues_all.append((i, feat, race, idx, seeds, rate, args))
    deadline = time.time() + (150 if tier == "quick" else 400)
    seen = set()
    for i, feat, race, idx, seeds, rate, args in issues_all:
        if i["clause"] in seen:
            continue
        seen.add(i["clause"])
        scen = scenario_json(native, args)
        mseeds = (i["miri_seed"], i["miri_seed"] + 1) if i.get("miri_seed") is not None else seeds
        small = scen
        if i["clause"] not in ("panic",) or i.get("miri_seed") is not None:
            try:
                small = minimise(native, feat, scen, i["clause"], mseeds, rate, deadline)
            except HarnessError:
                small = scen
        obj = {"property": "C16", "engine": "miri", "clause": i["clause"], "features": feat, "scenario": small,
               "scenario_original": {"seed": sd, "index": idx, "scenario_class": race},
               "miri": {"seed": i.get("miri_seed"), "preemption_rate": rate,
                        "flags": "-Zmiri-seed / -Zmiri-many-seeds, -Zmiri-preemption-rate"},
               "detail": i["detail"], "observed": i["output"]}
        rep.violation("miri:%s" % i["clause"], obj, "%s (scenario #%d, features %s, Miri seed %s, minimised to %d threads / %d ops): %s" % (
            i["clause"], idx, feat, i.get("miri_seed"), len(small["threads"]), sum(len(t) for t in small["threads"]),
            " ".join(i["output"][:6])[:1200] or i["detail"]))
    wall = max(time.time() - rep.t0, 1e-9)
    coverage = {
        "evaluations": execs,
        "distinct_nontrivial": len(orders),
        "rule": "one evaluation = one execution of a seeded multi-thread scenario (2-4 threads x 2-5 operations over shared "
                "compiled expressions, a shared custom runtime and shared documents; in 'race' scenarios the default runtime "
                "is first used inside the threads) under Miri with one scheduler seed and preemption rate; Miri must report "
                "no data race, deadlock, UB or panic and the result must equal the sequential native run. Role classes: 'owner' "
                "(the main thread, which compiled the shared expressions, searches them next to the spawned threads), 'rounds' "
                "(long-lived threads; the main thread drops and re-compiles generations of shared expressions between "
                "rendezvous), 'badpool' (lockstep compiles of the same texts, half of them failing to parse), 'handoff' (result values and compiled "
                "expressions made on one thread, searched again and dropped on another), 'bigproj' "
                "(thousands of elements; Miri reports 8 CPUs). distinct = "
                "distinct (scenario, completion order of all operations) pairs observed; non-trivial = the same (a different "
                "completion order is a different interleaving).",
        "samples": samples,
        "executions_with_overlapping_threads": overlap,
        "executions_per_feature_set": per_feature,
        "scenarios": len(plan),
        "plan_entry_wall_s": entry_times,
        "native_serial_thread_scenarios_compared": serial_n,
        "static_obligations_compiled": obligations,
        "runs_per_hour": int(execs / wall * 3600),
        "seeds": {"scenario_seed": sd, "miri_seeds": "ranges given per scenario in the plan",
                  "plan": [{"features": p[0], "scenario_class": p[1], "scenario_index": p[2], "miri_seeds": list(p[3]), "preemption_rate": p[4]}
                           for p in plan]},
        "simulated_time": "no clock in the system under test; Miri's scheduler steps only",
        "faults_fired": {"preemptions": "decided by Miri per basic block with the configured rate; not counted by Miri",
                         "searches_failing_midway": "part of the scenario texts (sort_by / map over a type switch)"},
        "components_real": ["whole jmespath crate incl. lazy_static/Once, Arc refcounts, allocator model — interpreted by Miri"],
        "components_stubbed": ["OS threads and scheduler (Miri's), no FFI involved"],
        "exhaustive": False,
    }
    return rep.finish(coverage, [
        "Miri's seeded scheduler, weak-memory emulation and vector-clock race detector are trusted",
        "schedules are sampled, not enumerated",
        "the shuttle layer described in DESIGN.md section 4.3(c) is not built; the property is decided by the obligations and Miri layers",
    ])
