"""Driver for histsim: C13 (purity over call histories) and C17 (same
histories under every cargo feature build)."""
import json
import os
import subprocess
import time

from common import (run_dir, HarnessError, Report, cargo_build, ddmin, pmap, run, scratch, seed, NCPU, WORK)

H_FIELDS = ("idx", "nops", "nsearch", "nentries", "shape", "log", "map", "cls")


def parse_log(path):
    """-> (dict idx -> fields, list of V lines, stats json, samples)"""
    hs, vs, stats, samples = {}, [], None, []
    ended = False
    with open(path) as f:
        for line in f:
            if line.startswith("H "):
                p = line.split()
                hs[int(p[1])] = p[1:]
            elif line.startswith("V "):
                p = line.rstrip("\n").split(" ", 4)
                vs.append({"idx": int(p[1]), "invariant": p[2], "op_index": int(p[3]), "detail": json.loads(p[4])})
            elif line.startswith("STATS "):
                stats = json.loads(line[6:])
            elif line.startswith("SAMPLE "):
                samples.append(json.loads(line[7:]))
            elif line.startswith("END"):
                ended = True
    if not ended:
        raise HarnessError("simulator log %s is incomplete (process died?)" % path)
    return hs, vs, stats, samples


def sim_run(binary, sd, start, count, mode, out, viol_dir=None, samples=0):
    cmd = [binary, "run", "--seed", str(sd), "--start", str(start), "--count", str(count), "--mode", mode,
           "--out", out, "--samples", str(samples)]
    if viol_dir:
        cmd += ["--viol-dir", viol_dir]
    p = run(cmd, timeout=3600)
    if p.returncode != 0:
        raise HarnessError("histsim %s exited %s: %s" % (mode, p.returncode, p.stderr.decode(errors="replace")[-2000:]))


def sim_gen(binary, sd, index):
    p = run([binary, "gen", "--seed", str(sd), "--index", str(index)], timeout=60)
    if p.returncode != 0:
        raise HarnessError("histsim gen failed")
    return json.loads(p.stdout)


def sim_exec(binary, replay_obj, mode, tag, verbose=False):
    """Execute explicit histories in a fresh process -> (H dict, V list, log lines)"""
    d = os.path.join(run_dir(), "exec")
    os.makedirs(d, exist_ok=True)
    path = os.path.join(d, "cand_%s_%d.json" % (tag, os.getpid()))
    with open(path, "w") as f:
        json.dump(replay_obj, f)
    cmd = [binary, "exec", "--file", path, "--mode", mode]
    if verbose:
        cmd.append("--verbose")
    p = run(cmd, timeout=600)
    if p.returncode != 0:
        raise HarnessError("histsim exec exited %s: %s" % (p.returncode, p.stderr.decode(errors="replace")[-2000:]))
    hs, vs, log = {}, [], []
    for line in p.stdout.decode(errors="replace").splitlines():
        if line.startswith("H "):
            q = line.split()
            hs[int(q[1])] = q[1:]
        elif line.startswith("V "):
            q = line.split(" ", 4)
            vs.append({"idx": int(q[1]), "invariant": q[2], "op_index": int(q[3]), "detail": json.loads(q[4])})
        elif line.startswith("L "):
            log.append(line[2:])
    return hs, vs, log


class Acc:
    """evidence accumulator over all batches"""

    def __init__(self):
        self.counters = {}
        self.shapes = set()
        self.shapes_nt = set()
        self.triples = set()
        self.triples_special = set()
        self.histories = 0
        self.ops = 0
        self.searches_p1 = 0
        self.searches_p3 = 0
        self.samples = []
        self.procs = 0

    def add_stats(self, st, p1=True):
        if not st:
            return
        if p1:
            for k, v in st["counters"].items():
                self.counters[k] = self.counters.get(k, 0) + v
            self.shapes.update(st["shapes"])
            self.shapes_nt.update(st["shapes_nontrivial"])
        self.triples.update(st["triples"])
        self.triples_special.update(st["triples_special"])


# ---------------------------------------------------------------------------
# C13
# ---------------------------------------------------------------------------
def minimise_histories(hists, test, deadline):
    """hists: list of {"index":..,"ops":[..]}; test(list)->bool.  First drop
    whole histories, then ops inside each remaining history."""
    if len(hists) > 1:
        hists = ddmin(hists, test, deadline)
    for i in range(len(hists)):
        def t_ops(ops, i=i):
            cand = [dict(h) for h in hists]
            cand[i] = {"index": hists[i]["index"], "ops": ops}
            return test(cand)
        if time.time() < deadline:
            hists[i] = {"index": hists[i]["index"], "ops": ddmin(hists[i]["ops"], t_ops, deadline)}
    return hists


def c13_predicate(binary, sd, kind, invariant):
    """Returns test(hists)->bool re-running the candidate in fresh processes."""
    def test(hists):
        obj = {"property": "C13", "seed": sd, "histories": hists}
        if kind == "in_process_p1" or kind == "in_process_p3":
            mode = "p1" if kind.endswith("p1") else "p3"
            _, vs, _ = sim_exec(binary, obj, mode, "m")
            return any(v["invariant"] == invariant for v in vs)
        if kind == "history_dependence":
            h1, _, _ = sim_exec(binary, obj, "p1", "m")
            h3, _, _ = sim_exec(binary, obj, "p3", "m")
            return any(h1[i][6] != h3[i][6] for i in h1 if i in h3)
        if kind == "process_dependence":
            ref, _, _ = sim_exec(binary, obj, "p1", "m")
            for _ in range(5):
                again, _, _ = sim_exec(binary, obj, "p1", "m")
                if again != ref:
                    return True
            return False
        raise HarnessError("unknown replay kind %s" % kind)
    return test


def c13_make_replay(binary, sd, kind, invariant, hists, detail, deadline, features="default"):
    test = c13_predicate(binary, sd, kind, invariant)
    reproduced = test(hists)
    minimised = False
    if reproduced:
        n0 = sum(len(h["ops"]) for h in hists)
        hists = minimise_histories(hists, test, deadline)
        minimised = True
        detail += " | minimised from %d to %d ops in %d histories" % (
            n0, sum(len(h["ops"]) for h in hists), len(hists))
    obj = {"property": "C13", "seed": sd, "kind": kind, "invariant": invariant, "histories": hists,
           "detail": detail, "reproduced_in_fresh_process": reproduced, "minimised": minimised,
           "features": features}
    if reproduced:
        try:
            _, _, log = sim_exec(binary, obj, "p3" if kind.endswith("p3") else "p1", "v", verbose=True)
            obj["trace"] = log[:400]
        except HarnessError:
            pass
    return obj


def c13_group(args):
    binary, sd, g, gsize, d, want_samples = args[:6]
    tag = args[6] if len(args) > 6 else "main"
    half = gsize // 2
    start = g * gsize
    out = {}
    specs = [("p1a", "p1", start, half), ("p1b", "p1", start + half, gsize - half), ("p2", "p1", start, gsize),
             ("p3a", "p3", start, half), ("p3b", "p3", start + half, gsize - half)]
    for name, mode, st, cnt in specs:
        path = os.path.join(d, "g%d_%s_%s.log" % (g, tag, name))
        sim_run(binary, sd, st, cnt, mode, path, viol_dir=os.path.join(d, "viol"),
                samples=(want_samples if name == "p1a" and g == 0 else 0))
        out[name] = parse_log(path)
        os.remove(path)
    p1 = dict(out["p1a"][0])
    p1.update(out["p1b"][0])
    p2 = out["p2"][0]
    p3 = dict(out["p3a"][0])
    p3.update(out["p3b"][0])
    issues = []
    for name in ("p1a", "p1b", "p2"):
        for v in out[name][1]:
            issues.append(("in_process_p1", v["invariant"], v["idx"], v["detail"], name))
    for name in ("p3a", "p3b"):
        for v in out[name][1]:
            issues.append(("in_process_p3", v["invariant"], v["idx"], v["detail"], name))
    for i, f in p1.items():
        if p2.get(i) != f:
            issues.append(("process_dependence", "same-call-same-outcome", i,
                           "history #%d gave a different log in a second process with a different batch composition: %s vs %s" % (
                               i, f, p2.get(i)), "p2"))
        if i not in p3 or p3[i][6] != f[6]:
            issues.append(("history_dependence", "same-call-same-outcome", i,
                           "history #%d: outcomes of the calls made in order, on re-used handles and shared documents, differ from the outcomes of the same calls made history-free (fresh compile, fresh document, shuffled order, other process)" % i,
                           "p3"))
    return {
        "g": g, "issues": issues,
        "stats_p1": [out["p1a"][2], out["p1b"][2]], "stats_other": [out["p2"][2], out["p3a"][2], out["p3b"][2]],
        "n": len(p1), "ops": sum(int(f[1]) for f in p1.values()),
        "s1": sum(int(f[2]) for f in p1.values()), "s3": sum(int(f[2]) for f in p3.values()),
        "samples": out["p1a"][3], "batch_a": (start, half), "batch_b": (start + half, gsize - half),
    }


def batch_histories(binary, sd, start, upto):
    return [sim_gen(binary, sd, i)["histories"][0] for i in range(start, upto + 1)]


VARIANTS = {
    # name: (toolchain, features)
    "stable_default": (None, None),
    "n_default": ("nightly", None),
    "n_sync": ("nightly", "sync"),
    "n_specialized": ("nightly", "specialized"),
    "n_sync_specialized": ("nightly", "sync,specialized"),
    "stable_sync": (None, "sync"),
}


def build_variants(names):
    def b(n):
        tc, feat = VARIANTS[n]
        return n, cargo_build("histsim", n, features=feat, toolchain=tc)
    return dict(pmap(b, names, workers=len(names)))


def c13_spec_group(args):
    """in-order pass under a `specialized` build, where a value handed to
    search() really is shared with the interpreter (identity conversion)"""
    binary, sd, g, gsize, d, variant = args
    path = os.path.join(d, "s%d_%s.log" % (g, variant))
    sim_run(binary, sd, g * gsize, gsize, "p1", path)
    hs, vs, st, _ = parse_log(path)
    os.remove(path)
    return {"issues": [("in_process_p1", v["invariant"], v["idx"], v["detail"], variant) for v in vs],
            "n": len(hs), "stats": st, "batch": (g * gsize, gsize), "variant": variant}


def c13_check(tier, replay=None):
    sd = seed()
    t_start = time.time()
    if replay:
        with open(replay) as f:
            feat = json.load(f).get("variant", "stable_default")
        bins = build_variants([feat])
        return c13_replay(bins[feat], replay)
    spec_variants = ["n_specialized", "n_sync_specialized"]
    bins = build_variants(["stable_default"] + spec_variants)
    binary = bins["stable_default"]
    rep = Report("C13", tier)
    rep.t0 = t_start
    total = 30000 if tier == "quick" else 3000000
    gsize = 1876 if tier == "quick" else 10000
    ngroups = (total + gsize - 1) // gsize
    d = scratch("c13")
    res = pmap(c13_group, [(binary, sd, g, gsize, d, 2) for g in range(ngroups)])
    # the same three-way protocol under `specialized`, where Rcvar inputs reach the
    # interpreter by identity (aliasing and sharing between caller and library are real)
    res_spec = pmap(c13_group, [(bins["n_specialized"], sd, g, gsize, d, 0, "spec") for g in range(ngroups)])
    sres = pmap(c13_spec_group, [(bins[v], sd, g, gsize, d, v) for v in ["n_sync_specialized"] for g in range(ngroups)])
    acc = Acc()
    issues = []
    for r in res:
        for st in r["stats_p1"]:
            acc.add_stats(st, True)
        for st in r["stats_other"]:
            acc.add_stats(st, False)
        acc.histories += r["n"]
        acc.ops += r["ops"]
        acc.searches_p1 += r["s1"]
        acc.searches_p3 += r["s3"]
        acc.samples += r["samples"]
        acc.procs += 5
        for it in r["issues"]:
            issues.append((it, r, "stable_default"))
    spec_hist = 0
    for r in res_spec:
        spec_hist += r["n"] * 3
        acc.procs += 5
        for st in r["stats_p1"]:
            acc.add_stats({"counters": {k: v for k, v in st["counters"].items() if k.startswith("probe.")},
                           "shapes": [], "shapes_nontrivial": [], "triples": [], "triples_special": []}, True)
        for it in r["issues"]:
            issues.append((it, r, "n_specialized"))
    for r in sres:
        spec_hist += r["n"]
        acc.procs += 1
        for it in r["issues"]:
            issues.append((it, {"batch_a": r["batch"], "batch_b": (r["batch"][0] + r["batch"][1], 0)}, r["variant"]))
    # report at most 3 distinct (kind, invariant) violations, minimised
    deadline = time.time() + (60 if tier == "quick" else 300)
    seen = set()
    for (kind, inv, idx, detail, where), r, variant in sorted(issues, key=lambda x: (x[0][2], x[2])):
        if (kind, inv) in seen or len(seen) >= 3:
            continue
        seen.add((kind, inv))
        vb = bins[variant]
        hist = sim_gen(vb, sd, idx)["histories"]
        obj = c13_make_replay(vb, sd, kind, inv, hist, detail, deadline)
        if not obj["reproduced_in_fresh_process"] and kind.startswith("in_process"):
            # the violation needs the histories that ran before it in the same process
            ba = r["batch_a"] if idx < r["batch_b"][0] else r["batch_b"]
            if where == "p2":
                ba = (r["batch_a"][0], r["batch_a"][1] + r["batch_b"][1])
            if kind == "in_process_p3":
                hists = batch_histories(vb, sd, idx, ba[0] + ba[1] - 1)
            else:
                hists = batch_histories(vb, sd, ba[0], idx)
            obj = c13_make_replay(vb, sd, kind, inv, hists, detail, deadline)
        obj["variant"] = variant
        rep.violation("%s:%s" % (kind, inv), obj, "%s / %s at history #%d (build %s): %s" % (kind, inv, idx, variant, detail))
    fault_counts = {k[len("fault.fired."):]: v for k, v in acc.counters.items() if k.startswith("fault.fired.")}
    wall = max(time.time() - rep.t0, 1e-9)
    coverage = {
        "evaluations": acc.histories,
        "distinct_nontrivial": len(acc.shapes_nt),
        "rule": "one evaluation = one seeded call history (8-64 ops: compile / parse / clone / drop / new-document "
                "(fresh, twin, mutation of a base document, composed from shared subtrees, earlier result fed back) / "
                "drop+reallocate / search with optional fault plan / fresh-compile search), executed in 3 ways x fresh "
                "processes: in order (P1), again in a process with a different batch (P2), and history-free in shuffled "
                "order (P3); plus an in-order pass under each `specialized` build (where the caller's value is shared with "
                "the interpreter). distinct = distinct history shapes (hash of the sequence of op kind, handle age, outcome "
                "class, fault armed); non-trivial = a handle searched again after a different intervening call, or a "
                "fresh compile repeating an earlier call.",
        "samples": acc.samples[:2],
        "distinct_shapes": len(acc.shapes),
        "ops_executed": acc.ops,
        "searches_in_order": acc.searches_p1,
        "searches_history_free": acc.searches_p3,
        "histories_under_specialized_builds": spec_hist,
        "processes": acc.procs,
        "runs_per_hour": int((acc.histories * 3 + spec_hist) / wall * 3600),
        "seeds": {"batch_seed": sd, "first_history": 0, "last_history": acc.histories - 1,
                  "derivation": "history i uses mix(VERIF_SEED, i)"},
        "simulated_time": "the library reads no clock; logical steps only: %d operations" % acc.ops,
        "faults_fired": fault_counts,
        "faults_armed_not_reached": acc.counters.get("fault.armed_not_reached", 0),
        "fault_function_invocations": acc.counters.get("fault_fn.invocations", 0),
        "probes": {k[6:]: v for k, v in acc.counters.items() if k.startswith("probe.")},
        "op_counts": {k[3:]: v for k, v in acc.counters.items() if k.startswith("op.")},
        "search_outcomes": {k[7:]: v for k, v in acc.counters.items() if k.startswith("search.")},
        "result_classes": {k[7:]: v for k, v in acc.counters.items() if k.startswith("result.")},
        "input_forms": {k[5:]: v for k, v in acc.counters.items() if k.startswith("form.")},
        "components_real": ["jmespath::compile", "jmespath::parse", "Runtime::compile", "Expression::{clone,search,as_ast,as_str}",
                            "Variable::from_json", "ToJmespath conversions", "all built-in functions", "lazy DEFAULT_RUNTIME"],
        "components_stubbed": ["none of the library; the simulator adds 3 registered fault functions (vfail, vtick, vnew) "
                               "through the public Runtime::register_function seam"],
        "exhaustive": False,
    }
    return rep.finish(coverage, [
        "outcomes are compared implementation-vs-itself; no specification oracle is involved",
        "Debug rendering of Variable / Ast / JmespathError is taken as the observable value (it distinguishes 1 from 1.0)",
        "panics raised by the library are treated as outcomes and compared like values, not alarmed (totality is C05, not claimed)",
        "sampling: a clean batch is evidence, not proof",
    ])


# ---------------------------------------------------------------------------
# C17
# ---------------------------------------------------------------------------
C17_BUILDS = ["n_default", "n_sync", "n_specialized", "n_sync_specialized"]


def c17_group(args):
    bins, sd, g, gsize, d, builds = args
    out = {}
    for v in builds:
        path = os.path.join(d, "f%d_%s.log" % (g, v))
        sim_run(bins[v], sd, g * gsize, gsize, "p1", path, samples=(2 if g == 0 and v == builds[0] else 0))
        out[v] = parse_log(path)
        os.remove(path)
    base = out[builds[0]]
    issues = []
    base_v = {(x["idx"], x["invariant"]) for x in base[1]}
    for v in builds[1:]:
        for i, f in base[0].items():
            o = out[v][0].get(i)
            if o is None or o[7] != f[7]:
                issues.append(("cross_build", "same-class-in-every-build", i,
                               "history #%d: class-level outcomes (JSON text of the value / error class) differ between build %s and build %s" % (
                                   i, builds[0], v), v))
        for x in out[v][1]:
            if (x["idx"], x["invariant"]) not in base_v:
                issues.append(("in_build", x["invariant"], x["idx"],
                               "only in build %s: %s" % (v, x["detail"]), v))
    return {"issues": issues, "n": len(base[0]), "stats": {v: out[v][2] for v in builds}, "samples": base[3],
            "ops": sum(int(f[1]) for f in base[0].values()), "searches": sum(int(f[2]) for f in base[0].values())}


def c17_predicate(bins, sd, kind, invariant, builds):
    def test(hists):
        obj = {"property": "C17", "seed": sd, "histories": hists}
        if kind == "cross_build":
            ref, _, _ = sim_exec(bins[builds[0]], obj, "p1", "m17")
            for v in builds[1:]:
                o, _, _ = sim_exec(bins[v], obj, "p1", "m17")
                if any(o.get(i, [None] * 8)[7] != f[7] for i, f in ref.items()):
                    return True
            return False
        if kind == "in_build":
            _, v0, _ = sim_exec(bins[builds[0]], obj, "p1", "m17")
            if any(v["invariant"] == invariant for v in v0):
                return False
            for b in builds[1:]:
                _, vs, _ = sim_exec(bins[b], obj, "p1", "m17")
                if any(v["invariant"] == invariant for v in vs):
                    return True
            return False
        raise HarnessError("unknown C17 replay kind %s" % kind)
    return test


def c17_explain(bins, obj, builds):
    """per-build verbose traces of the (minimised) histories, lines that differ"""
    traces = {}
    for v in builds:
        _, vs, log = sim_exec(bins[v], obj, "p1", "x17", verbose=True)
        traces[v] = {"log": log, "violations": vs}
    return traces


def c17_check(tier, replay=None):
    sd = seed()
    t_start = time.time()
    builds = list(C17_BUILDS)
    if tier == "thorough" and not replay:
        builds += ["stable_default", "stable_sync"]
    bins = build_variants(builds)
    if replay:
        with open(replay) as f:
            obj = json.load(f)
        rb = obj.get("builds", C17_BUILDS)
        bins = build_variants(rb)
        bad = c17_predicate(bins, obj.get("seed", 0), obj["kind"], obj.get("invariant"), rb)(obj["histories"])
        if bad:
            tr = c17_explain(bins, obj, rb)
            ref = tr[rb[0]]["log"]
            for v in rb[1:]:
                for a, b in zip(ref, tr[v]["log"]):
                    if a != b:
                        print("  %s: %s" % (rb[0], a[:700]))
                        print("  %s: %s" % (v, b[:700]))
                for x in tr[v]["violations"]:
                    print("  %s: %s %s" % (v, x["invariant"], x["detail"][:1200]))
            print("VIOLATION property=C17 replay=%s" % replay)
            return 1
        print("replay %s: no violation on this tree" % replay)
        return 0
    rep = Report("C17", tier)
    rep.t0 = t_start
    total = 24000 if tier == "quick" else 1000000
    gsize = 1500 if tier == "quick" else 10000
    ngroups = (total + gsize - 1) // gsize
    d = scratch("c17")
    res = pmap(c17_group, [(bins, sd, g, gsize, d, builds) for g in range(ngroups)])
    acc = Acc()
    issues = []
    per_build_forms = {}
    for r in res:
        acc.histories += r["n"]
        acc.ops += r["ops"]
        acc.searches_p1 += r["searches"]
        acc.samples += r["samples"]
        for v, st in r["stats"].items():
            acc.add_stats(st, v == builds[0])
            for k, n in st["counters"].items():
                if k.startswith("form."):
                    per_build_forms.setdefault(k[5:], 0)
                    per_build_forms[k[5:]] += n
        issues += r["issues"]
    deadline = time.time() + (60 if tier == "quick" else 300)
    seen = set()
    for kind, inv, idx, detail, v in sorted(issues, key=lambda x: x[2]):
        if (kind, inv) in seen or len(seen) >= 3:
            continue
        seen.add((kind, inv))
        hists = sim_gen(bins[builds[0]], sd, idx)["histories"]
        test = c17_predicate(bins, sd, kind, inv, builds)
        reproduced = test(hists)
        if reproduced:
            n0 = sum(len(h["ops"]) for h in hists)
            hists = minimise_histories(hists, test, deadline)
            detail += " | minimised from %d to %d ops" % (n0, sum(len(h["ops"]) for h in hists))
        obj = {"property": "C17", "seed": sd, "kind": kind, "invariant": inv, "builds": builds, "histories": hists,
               "detail": detail, "reproduced_in_fresh_process": reproduced}
        if reproduced:
            tr = c17_explain(bins, obj, builds)
            ref = tr[builds[0]]["log"]
            diffs = []
            for b in builds[1:]:
                for x, y in zip(ref, tr[b]["log"]):
                    if x != y and len(diffs) < 6:
                        diffs.append({builds[0]: x[:1500], b: y[:1500]})
                for x in tr[b]["violations"][:2]:
                    diffs.append({b: x})
            obj["differences"] = diffs
            if diffs:
                detail += " | e.g. " + json.dumps(diffs[0])[:1500]
        rep.violation("%s:%s" % (kind, inv), obj, "%s / %s at history #%d: %s" % (kind, inv, idx, detail))
    wall = max(time.time() - rep.t0, 1e-9)
    coverage = {
        "evaluations": acc.histories * len(builds),
        "distinct_nontrivial": len(acc.triples_special),
        "rule": "one evaluation = one seeded call history (see C13) executed by the same driver source built under one "
                "feature set; the class-level projection of every outcome (JSON text of the value, or Parse / "
                "Runtime::<variant> for errors) must be identical in all builds, and within a build the specialised "
                "conversion of an input (Value, &Value, Rcvar, &Rcvar, Variable, &Variable, String, &str, every integer "
                "width, f32, f64, bool, ()) must give the same outcome as the generic serde path (same input behind a "
                "newtype wrapper). Inputs holding expression references are excluded (not JSON-representable); non-finite "
                "floats are never generated. distinct = distinct (input form, value class, expression root kind) triples; "
                "non-trivial = the input form has a specialised impl.",
        "samples": acc.samples[:2],
        "builds": {b: {"toolchain": VARIANTS[b][0] or "stable", "features": VARIANTS[b][1] or "default"} for b in builds},
        "histories_per_build": acc.histories,
        "ops_per_build": acc.ops,
        "searches_per_build": acc.searches_p1,
        "distinct_triples_all_forms": len(acc.triples),
        "input_forms_all_builds": per_build_forms,
        "runs_per_hour": int(acc.histories * len(builds) / wall * 3600),
        "seeds": {"batch_seed": sd, "first_history": 0, "last_history": acc.histories - 1},
        "simulated_time": "no clock in the system under test; logical steps only: %d operations per build" % acc.ops,
        "faults_fired": {k[len("fault.fired."):]: v for k, v in acc.counters.items() if k.startswith("fault.fired.")},
        "components_real": ["the whole jmespath crate, compiled four (thorough: six) times from the current tree"],
        "components_stubbed": ["none"],
        "exhaustive": False,
    }
    return rep.finish(coverage, [
        "weak form: decides equality between builds and between conversion paths, not agreement with the specification",
        "one nightly toolchain for all four builds, so a difference can only come from the features",
        "error *class* is compared, not message text (the statement promises same value, same error class)",
        "sampling: a clean batch is evidence, not proof",
    ])


def c13_replay(binary, path):
    with open(path) as f:
        obj = json.load(f)
    kind, inv = obj.get("kind"), obj.get("invariant")
    test = c13_predicate(binary, obj.get("seed", 0), kind, inv)
    bad = test(obj["histories"])
    if bad:
        mode = "p3" if kind.endswith("p3") else "p1"
        _, vs, log = sim_exec(binary, obj, mode, "r", verbose=True)
        for l in log[-60:]:
            print("  " + l[:600])
        for v in vs:
            print("  %s: %s" % (v["invariant"], v["detail"][:1500]))
        print("VIOLATION property=C13 replay=%s" % path)
        return 1
    print("replay %s: no violation on this tree" % path)
    return 0
