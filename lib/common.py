"""Shared driver code for the /verif checks.

The drivers only orchestrate: build the simulator binaries from /repo's
current working tree, run them as separate processes, compare their logs,
minimise failures, write evidence.  Everything random comes from VERIF_SEED;
the wall clock is read for budgets and evidence only.
"""
import hashlib
import json
import os
import shutil
import subprocess
import sys
import time
from concurrent.futures import ThreadPoolExecutor

VERIF = os.path.dirname(os.path.dirname(os.path.abspath(__file__)))
WORK = os.path.join(VERIF, ".work")
SIM = os.path.join(VERIF, "sim")
# runs against a scratch copy (VERIF_REPO, sensitivity work only) must not
# overwrite the evidence / replays of the real tree
_ALT_PATH = os.path.abspath(os.environ.get("VERIF_REPO", "/repo"))
_ALT = _ALT_PATH != "/repo"
_ALT_DIR = os.path.join(WORK, "alt", "alt_" + hashlib.sha1(_ALT_PATH.encode()).hexdigest()[:10])
EVID = os.path.join(_ALT_DIR, "evidence") if _ALT else os.path.join(VERIF, "evidence")
REPLAYS = os.path.join(_ALT_DIR, "replays") if _ALT else os.path.join(VERIF, "replays")
DEFAULT_SEED = 20261004
NCPU = int(os.environ.get("VERIF_JOBS", "16"))


class HarnessError(Exception):
    """Something is wrong with the machinery or /repo does not build: exit 2."""


def seed():
    try:
        return int(os.environ.get("VERIF_SEED", DEFAULT_SEED)) & 0xFFFFFFFFFFFFFFFF
    except ValueError:
        return DEFAULT_SEED


def repo():
    return os.path.abspath(os.environ.get("VERIF_REPO", "/repo"))


def repo_key():
    r = repo()
    if r == "/repo":
        return "repo"
    return "alt_" + hashlib.sha1(r.encode()).hexdigest()[:10]


def alt_base():
    return os.path.join(WORK, "alt", repo_key())


def sim_dir():
    """Directory holding the simulator workspace to build.  For /repo this is
    /verif/sim (its crates reach the SUT through /verif/.work/sut -> /repo).
    For a scratch copy (VERIF_REPO, sensitivity work only) the workspace
    sources are mirrored under .work/alt/<key>/ with their own sut link, so
    that concurrent runs against different trees cannot disturb each other."""
    if repo() == "/repo":
        return SIM
    return os.path.join(alt_base(), "sim")


_LINK_DONE = False
_LINK_LOCK = __import__("threading").Lock()


def ensure_sut_link():
    """Idempotent and done once per process (builds run in parallel threads; the
    mirror for scratch copies must not be re-copied under a running cargo)."""
    global _LINK_DONE
    with _LINK_LOCK:
        if _LINK_DONE:
            return
        _ensure_sut_link()
        _LINK_DONE = True


def _ensure_sut_link():
    want = repo()
    if not os.path.isdir(os.path.join(want, "jmespath", "src")):
        raise HarnessError("no jmespath sources under %s" % want)
    if want == "/repo":
        base = VERIF
    else:
        base = alt_base()
        os.makedirs(base, exist_ok=True)
        shutil.copytree(SIM, os.path.join(base, "sim"), dirs_exist_ok=True,
                        ignore=shutil.ignore_patterns("target*"))
    os.makedirs(os.path.join(base, ".work"), exist_ok=True)
    link = os.path.join(base, ".work", "sut")
    try:
        cur = os.readlink(link)
    except OSError:
        cur = None
    if cur != want:
        try:
            os.remove(link)
        except OSError:
            pass
        os.symlink(want, link)


def target_dir(variant):
    if repo() == "/repo":
        return os.path.join(WORK, "target", "repo", variant)
    return os.path.join(alt_base(), "target", variant)


def cargo_env(extra=None):
    env = dict(os.environ)
    env["CARGO_NET_OFFLINE"] = "true"
    env.pop("RUSTFLAGS", None) if extra and "RUSTFLAGS" in extra else None
    env.setdefault("CARGO_TERM_COLOR", "never")
    if extra:
        env.update(extra)
    return env


def cargo_build(pkg, variant, features=None, toolchain=None, manifest_dir=None, extra_env=None,
                bin_name=None, profile_release=True, allow_fail=False, extra_args=None):
    """Build one simulator binary against the current tree.  Returns its path.
    cargo's own fingerprinting rebuilds whenever a source file under the SUT
    changed."""
    ensure_sut_link()
    manifest_dir = manifest_dir or sim_dir()
    td = target_dir(variant)
    cmd = ["cargo"]
    if toolchain:
        cmd.append("+" + toolchain)
    cmd += ["build", "--offline", "-p", pkg]
    if profile_release:
        cmd.append("--release")
    if features:
        cmd += ["--features", features]
    if extra_args:
        cmd += extra_args
    env = cargo_env(extra_env)
    env["CARGO_TARGET_DIR"] = td
    t0 = time.time()
    p = subprocess.run(cmd, cwd=manifest_dir, env=env, stdout=subprocess.PIPE, stderr=subprocess.STDOUT, text=True)
    if p.returncode != 0:
        if allow_fail:
            return None, p.stdout
        sys.stderr.write(p.stdout[-6000:])
        raise HarnessError("build failed: %s (variant %s)" % (" ".join(cmd), variant))
    path = os.path.join(td, "release" if profile_release else "debug", bin_name or pkg)
    if not os.path.exists(path):
        raise HarnessError("built binary missing: %s" % path)
    if allow_fail:
        return path, p.stdout
    return path


def run(cmd, timeout=None, env=None, cwd=None, input_bytes=None):
    return subprocess.run(cmd, stdout=subprocess.PIPE, stderr=subprocess.PIPE, timeout=timeout, env=env, cwd=cwd,
                          input=input_bytes)


def pmap(fn, items, workers=None):
    with ThreadPoolExecutor(max_workers=workers or NCPU) as ex:
        return list(ex.map(fn, items))


def run_dir():
    """Per-process scratch root (removed at exit): two checks running at the same time,
    e.g. against different scratch trees, must never share or wipe each other's files."""
    d = os.path.join(WORK, "run", "p%d" % os.getpid())
    if not os.path.isdir(d):
        os.makedirs(d, exist_ok=True)
        import atexit
        atexit.register(lambda: shutil.rmtree(d, ignore_errors=True))
    return d


def scratch(name):
    d = os.path.join(run_dir(), name)
    shutil.rmtree(d, ignore_errors=True)
    os.makedirs(d, exist_ok=True)
    return d


# --------------------------------------------------------------------------
# delta debugging
# --------------------------------------------------------------------------
def ddmin(items, test, deadline):
    """Classic ddmin: smallest sub-list (1-minimal w.r.t. chunk removal) for
    which test(sublist) is still True.  `test` must be deterministic."""
    items = list(items)
    n = 2
    while len(items) >= 2 and time.time() < deadline:
        chunk = max(1, len(items) // n)
        subsets = [items[i:i + chunk] for i in range(0, len(items), chunk)]
        reduced = False
        # try complements (remove one chunk)
        for i in range(len(subsets)):
            if time.time() >= deadline:
                break
            comp = [x for j, s in enumerate(subsets) if j != i for x in s]
            if comp and test(comp):
                items = comp
                n = max(n - 1, 2)
                reduced = True
                break
        if not reduced:
            if chunk == 1:
                break
            n = min(len(items), n * 2)
    return items


# --------------------------------------------------------------------------
# known findings, violations, evidence
# --------------------------------------------------------------------------
def known_findings(prop):
    p = os.path.join(VERIF, "known_findings.json")
    try:
        with open(p) as f:
            data = json.load(f)
    except (OSError, ValueError):
        return []
    return [k for k in data.get("findings", []) if k.get("property") == prop and k.get("status") == "open"]


class Report:
    """Collects what a check run found and turns it into exit status, stdout
    lines and the evidence file."""

    def __init__(self, prop, tier):
        self.prop = prop
        self.tier = tier
        self.t0 = time.time()
        self.violations = []  # (signature, replay_path, text)
        self.known_hits = []
        self.known = known_findings(prop)

    def violation(self, signature, replay_obj, text, replay_name=None):
        """signature: stable string identifying *what* fails (matched against
        known_findings.json)."""
        for k in self.known:
            if k.get("signature") and k["signature"] == signature:
                if signature not in [h[0] for h in self.known_hits]:
                    self.known_hits.append((signature, k.get("what", text)))
                return None
        os.makedirs(REPLAYS, exist_ok=True)
        name = replay_name or ("%s_%s_%s.json" % (self.prop, self.tier, hashlib.sha1(
            (signature + json.dumps(replay_obj, sort_keys=True)).encode()).hexdigest()[:12]))
        path = os.path.join(REPLAYS, name)
        with open(path, "w") as f:
            json.dump(replay_obj, f, indent=1, sort_keys=True)
        self.violations.append((signature, path, text))
        return path

    def finish(self, coverage, assumptions, level="exploration"):
        wall = time.time() - self.t0
        ev = {
            "property_id": self.prop,
            "tier": self.tier,
            "seed": seed(),
            "level": level,
            "coverage": coverage,
            "assumptions": assumptions,
            "wall_s": round(wall, 3),
            "violations": len(self.violations),
            "known_findings_hit": [h[0] for h in self.known_hits],
        }
        os.makedirs(EVID, exist_ok=True)
        tmp = os.path.join(EVID, "%s.json.tmp" % self.prop)
        with open(tmp, "w") as f:
            json.dump(ev, f, indent=1, sort_keys=True)
        os.replace(tmp, os.path.join(EVID, "%s.json" % self.prop))
        for sig, what in self.known_hits:
            print("KNOWN-FINDING: property=%s %s" % (self.prop, what))
        for sig, path, text in self.violations:
            print("violation detail: %s" % text[:2000])
            print("VIOLATION property=%s replay=%s" % (self.prop, path))
        print("%s %s: %d violation(s), %d known finding(s), %.1fs; evidence %s" % (
            self.prop, self.tier, len(self.violations), len(self.known_hits), wall,
            os.path.join(EVID, "%s.json" % self.prop)))
        sys.stdout.flush()
        return 1 if self.violations else 0
