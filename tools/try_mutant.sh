#!/bin/bash
# Usage: tools/try_mutant.sh <patch.diff> <Cxx>[,Cyy...] [--tests] [--keep]
# Applies the patch to a scratch git worktree of /repo (outside /repo and
# /verif), optionally runs the repository's own test suite there, runs the
# quick checks against it through VERIF_REPO, then removes the worktree and
# its build output.
set -u
PATCH=$(readlink -f "$1"); PROPS=$2; shift 2
TESTS=0; KEEP=0
for a in "$@"; do [ "$a" = "--tests" ] && TESTS=1; [ "$a" = "--keep" ] && KEEP=1; done
NAME=$(basename "$PATCH" .diff)_$$
WT=/tmp/vm_$NAME
git -C /repo worktree add --detach "$WT" HEAD >/dev/null 2>&1 || { echo "worktree failed"; exit 2; }
cleanup() {
  if [ $KEEP = 0 ]; then
    git -C /repo worktree remove --force "$WT" >/dev/null 2>&1
    rm -rf "$WT"
    KEY=alt_$(python3 -c "import hashlib,sys;print(hashlib.sha1(sys.argv[1].encode()).hexdigest()[:10])" "$WT")
    rm -rf "/verif/.work/alt/$KEY"
  fi
}
trap cleanup EXIT
if ! git -C "$WT" apply "$PATCH"; then echo "PATCH-DOES-NOT-APPLY"; exit 2; fi
if [ $TESTS = 1 ]; then
  ( cd "$WT/jmespath" && CARGO_NET_OFFLINE=true cargo test --offline 2>&1 | grep -E "^test result|FAILED|error(\[|:)" | head -20 )
fi
RC=0
for P in $(echo "$PROPS" | tr ',' ' '); do
  echo "== $P on $NAME"
  VERIF_REPO="$WT" /verif/check "$P" quick 2>&1 | grep -E "VIOLATION|KNOWN-FINDING|HARNESS-ERROR|violation detail|violation\(s\)" | cut -c1-600
  rc=${PIPESTATUS[0]}
  echo "exit=$rc"
  [ $rc != 0 ] && RC=$rc
done
exit $RC
