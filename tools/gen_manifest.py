#!/usr/bin/env python3
"""Writes MANIFEST.json from the table below (single source of truth)."""
import json, os
HERE = os.path.dirname(os.path.dirname(os.path.abspath(__file__)))

NA = {
 "C01": "search result is a pure function of (expression, document): no schedule, fault, clock or cross-call state for a simulator to vary; deciding it needs an independent reference interpreter over generated inputs, which is a different technique family",
 "C02": "each built-in is a pure function of its evaluated argument tuple (sort stability, code-point order, avg([]), to_number are input-domain facts); no fault or interleaving can change them",
 "C03": "acceptance is a pure predicate on the expression string; finding over/under-acceptance needs a reference recogniser over generated strings, not a simulator",
 "C04": "the parse tree is a pure function of the token sequence; nothing to schedule or fail",
 "C05": "totality over inputs: the triggers (i32-edge slice steps, nesting depth, malformed quoting) are properties of the input text, not of a fault or schedule; panics met inside the claimed simulators are compared/reported there but that samples C05, it does not decide it",
 "C06": "a decision table over (function, arity, argument types): pure function of the call",
 "C07": "pure integer arithmetic on (length, start, stop, step)",
 "C08": "from_json / to_string / serde_json::Value conversions are pure functions of a string; the only code that reads a stream is jp, which is C18",
 "C09": "lexer decoding is a pure function of the spelling",
 "C10": "a pure relation on pairs of values",
 "C11": "an algebraic law between pure evaluations; needs metamorphic input generation only",
 "C12": "error class and coordinates are a pure function of (expression, document): the context offset is created and dropped inside one search, so no history, schedule or fault can influence it (C13 checks exactly that it cannot)",
 "C14": "the serde Serializer/Deserializer bridge is a pure function of the Rust value",
}

CHECKS = {
 "C13": dict(
   engine="histsim",
   technique="deterministic simulation of seeded call histories with injected function faults; 3-process replay (in-order, re-batched, history-free) under the default and the specialized build, in-order pass under sync+specialized",
   text="Exploration: seeded search over call histories (re-used and cloned handles, shared / composed / fed-back / reallocated documents, three runtimes, searches failing midway through injected function faults). Every call's outcome is compared with the same call made earlier in the process, in a second process with a different batch, and history-free in a third process (under the default build and again under `specialized`, where caller and interpreter really share values); documents, earlier results and the literals held by every live handle are snapshotted around each search. Right level because the property is over histories and the library has no specification-free oracle other than itself; a clean batch is evidence, not proof.",
   note="Trusted: Debug rendering as the observable; the simulator's own generators and bookkeeping; cargo fingerprinting to rebuild from /repo. Panics are compared as outcomes, not alarmed.",
   design="4.1"),
 "C17": dict(
   engine="histsim",
   technique="deterministic simulation: the same seeded histories replayed under each cargo feature build (configuration as the simulated knob) and diffed; specialised vs generic conversion path compared in-build",
   text="Exploration (weak form): the event log of a seed must be a function of the seed and the source, not of the feature set. The C13 simulator is built under default / sync / specialized / sync+specialized on one nightly toolchain (thorough adds stable default / sync) and class-level outcomes are diffed per history; inside each build every specialised input conversion is compared with the generic serde path on the same value.",
   note="Decides equality between builds and between conversion paths only; not agreement with the specification. Non-finite floats and expref-holding inputs are outside the statement and excluded. Needs the nightly toolchain present in the image.",
   design="4.4"),
 "C15": dict(
   engine="regsim",
   technique="deterministic simulation of seeded register/deregister/call histories against a map reference model, recording functions, injected function errors, 2-process replay",
   text="Exploration: seeded histories of register / deregister / register-builtins / get / call over 1-3 runtimes and a small name pool, with recording functions; after every operation the runtime is compared with a BTreeMap reference model (presence, which function answers, argument vector, exprefs unevaluated, signature gate).",
   note="Trusted: the reference model (a map and a tiny evaluator of the argument forms the generator emits); recording functions observe through the public Function trait.",
   design="4.2"),
 "C16": dict(
   engine="thrsim",
   technique="deterministic thread simulation: seeded scenarios (eighteen classes: race, late, pool, general, shared, deep, crowd, bigproj, owner, rounds, badpool, badskew, handoff, tostr; thorough also hot, bigsort, manytexts, longrun) under Miri's seeded scheduler with data-race and deadlock detection, each execution compared with the sequential run; deterministic native serial-threads pass; compile-time Send/Sync obligations",
   text="Exploration: seeded multi-thread scenarios (shared expressions, shared documents, first use of the default runtime inside or just before the race, steady-state compiling of the same texts, five threads deep in nested calls, thousand-call hot functions in the thorough tier) executed under Miri with many scheduler seeds and preemption rates, under sync and sync+specialized; every execution must equal the sequential result and Miri must report no data race, deadlock, UB, leak or panic. Thousands of scenarios are also run natively with each thread's operations on its own thread, one thread after the other (deterministic: exposes dependence on thread identity). Send/Sync obligations are compiled under --features sync.",
   note="Trusted: Miri's scheduler and race detector; sampling of schedules, not enumeration.",
   design="4.3"),
 "C18": dict(
   engine="clisim",
   technique="deterministic simulation of the real jp process under an LD_PRELOAD syscall seam with seeded fault plans (chunked reads, open/read errors, truncation) against an in-process library oracle",
   text="Exploration: the real jp binary built from the current tree runs under a libc seam that decides every read/open on the inputs from a seeded plan; stdout, stderr presence and exit status are compared with an oracle computed in-process from the library on the bytes actually delivered.",
   note="Trusted: the shim (about 200 lines of C), the in-process oracle's use of serde_json pretty printing, clap's own diagnostics counted as 'a diagnosis'. Output-sink failures and non-UTF-8 argv are outside the statement and not alarmed.",
   design="4.5"),
}

def main():
    claimed = [l.strip() for l in open(os.path.join(HERE, "claimed.txt")) if l.strip()]
    pending = {p: "claimed in DESIGN.md; its check is not part of this commit yet (in progress), so nothing is claimed for it here" for p in CHECKS if p not in claimed}
    checks = []
    for p in claimed:
        c = CHECKS[p]
        checks.append({
            "property_id": p,
            "quick_cmd": "./check %s quick" % p,
            "thorough_cmd": "./check %s thorough" % p,
            "evidence_file": "/verif/evidence/%s.json" % p,
            "replay_cmd_template": "./check %s --replay {path}" % p,
            "engine": c["engine"],
            "level_claimed": {"category": "exploration", "text": c["text"], "design_ref": "DESIGN.md section " + c["design"]},
            "level_note": c["note"],
            "technique": c["technique"],
        })
    hooks = json.load(open(os.path.join(HERE, "hooks.json")))
    m = {
        "version": 1,
        "setup_cmd": "./setup",
        "hooks": hooks,
        "engines": [
            {"name": "histsim", "path": "sim/histsim", "serves_properties": ["C13", "C17"], "kind_free_text": "seeded call-history simulator with function-table fault injection; Rust binary + Python driver (lib/hist.py)"},
            {"name": "regsim", "path": "sim/regsim", "serves_properties": ["C15"], "kind_free_text": "seeded registry-history simulator with reference model"},
            {"name": "thrsim", "path": "sim/thrsim", "serves_properties": ["C16"], "kind_free_text": "thread scenarios run under Miri's seeded scheduler (and shuttle where built)"},
            {"name": "clisim", "path": "sim/clisim", "serves_properties": ["C18"], "kind_free_text": "real jp process under an LD_PRELOAD syscall seam, in-process oracle"},
        ],
        "checks": checks,
        "notes": "Technique family: deterministic simulation with fault injection. 13 of 18 properties are pure functions of their input and are listed as not applicable with reasons (DESIGN.md sections 1-2). VERIF_SEED selects the batch seed (default 20261004); exit 2 = harness trouble.",
        "not_applicable": [{"property_id": p, "reason": r} for p, r in sorted({**NA, **pending}.items())],
    }
    with open(os.path.join(HERE, "MANIFEST.json"), "w") as f:
        json.dump(m, f, indent=1)
    print("MANIFEST.json written: claimed", claimed)

main()
