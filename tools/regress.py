#!/usr/bin/env python3
"""Catch matrix: run the quick (or thorough) check of its property against every
property-breaking patch under sensitivity/ and seeded/, and all claimed checks
against every property-preserving patch (seeded/benign_*).

  tools/regress.py [--jobs N] [--only C16] [--tier quick] [--out FILE]

Each patch is applied to its own scratch worktree of /repo under /tmp; the
check runs through VERIF_REPO; worktree and build output are removed afterwards.
Prints one line per patch and writes a JSON summary.
"""
import glob
import hashlib
import json
import os
import shutil
import subprocess
import sys
import time
from concurrent.futures import ThreadPoolExecutor

VERIF = os.path.dirname(os.path.dirname(os.path.abspath(__file__)))


def sh(cmd, env=None, timeout=6 * 3600):
    p = subprocess.run(cmd, env=env, stdout=subprocess.PIPE, stderr=subprocess.STDOUT, text=True, timeout=timeout)
    return p.returncode, p.stdout


def jobs_list(only):
    out = []
    for path in sorted(glob.glob(os.path.join(VERIF, "sensitivity", "C*", "*.diff"))):
        prop = os.path.basename(os.path.dirname(path))
        out.append((os.path.basename(path)[:-5], path, [prop], "break"))
    for d in sorted(glob.glob(os.path.join(VERIF, "seeded", "*"))):
        patch = os.path.join(d, "patch.diff")
        meta = os.path.join(d, "meta.json")
        if not (os.path.exists(patch) and os.path.exists(meta)):
            continue
        m = json.load(open(meta))
        if m.get("property"):
            # "checked_by": the check that decides this change when it is not the property the
            # change was written against (e.g. a schedule effect written against C13)
            out.append((m["id"], patch, m.get("checked_by") or [m["property"]], "break"))
        else:
            out.append((m["id"], patch, ["C13", "C15", "C17", "C18", "C16"], "benign"))
    if only:
        out = [j for j in out if only in j[2] and (j[3] == "break" or only == "benign") or (only == "benign" and j[3] == "benign")]
    return out


def run_one(job, tier):
    name, patch, props, kind = job
    wt = "/tmp/rg_%s_%d" % (name, os.getpid())
    res = {"id": name, "kind": kind, "results": {}}
    sh(["git", "-C", "/repo", "worktree", "add", "--detach", wt, "HEAD"])
    try:
        rc, out = sh(["git", "-C", wt, "apply", patch])
        if rc != 0:
            res["error"] = "patch does not apply: " + out[-300:]
            return res
        env = dict(os.environ)
        env["VERIF_REPO"] = wt
        for prop in props:
            t0 = time.time()
            rc, out = sh([os.path.join(VERIF, "check"), prop, tier], env=env)
            first = [l for l in out.splitlines() if l.startswith("violation detail")]
            res["results"][prop] = {"exit": rc, "wall_s": round(time.time() - t0, 1),
                                    "detail": (first[0][:300] if first else "")}
    finally:
        sh(["git", "-C", "/repo", "worktree", "remove", "--force", wt])
        shutil.rmtree(wt, ignore_errors=True)
        key = "alt_" + hashlib.sha1(wt.encode()).hexdigest()[:10]
        shutil.rmtree(os.path.join(VERIF, ".work", "alt", key), ignore_errors=True)
    return res


def main():
    a = sys.argv
    nj = int(a[a.index("--jobs") + 1]) if "--jobs" in a else 2
    only = a[a.index("--only") + 1] if "--only" in a else None
    tier = a[a.index("--tier") + 1] if "--tier" in a else "quick"
    outp = a[a.index("--out") + 1] if "--out" in a else os.path.join(VERIF, ".work", "regress.json")
    js = jobs_list(only)
    results = []
    with ThreadPoolExecutor(max_workers=nj) as ex:
        for r in ex.map(lambda j: run_one(j, tier), js):
            results.append(r)
            if "error" in r:
                print("%-40s ERROR %s" % (r["id"], r["error"]))
                continue
            cells = " ".join("%s=%s" % (p, {0: "clean", 1: "CAUGHT", 2: "HARNESS"}.get(v["exit"], v["exit"])) for p, v in r["results"].items())
            ok = all(v["exit"] == (1 if r["kind"] == "break" else 0) for v in r["results"].values())
            print("%-40s %-6s %s %s" % (r["id"], r["kind"], "ok  " if ok else "!!  ", cells))
            sys.stdout.flush()
    os.makedirs(os.path.dirname(outp), exist_ok=True)
    json.dump(results, open(outp, "w"), indent=1)
    bad = [r["id"] for r in results if "error" in r or not all(
        v["exit"] == (1 if r["kind"] == "break" else 0) for v in r["results"].values())]
    print("patches: %d, unexpected: %d %s" % (len(results), len(bad), bad))


main()
