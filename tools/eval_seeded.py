#!/usr/bin/env python3
"""Confirm and evaluate one seeded change.

  tools/eval_seeded.py <dir with patch.diff + demo.{rs,sh} + notes.md> <Cxx> [--tier quick|thorough] [--features F] [--nightly]

Steps (all in a scratch worktree under /tmp, removed afterwards):
  1. the patch applies to a clean checkout of /repo's HEAD;
  2. the repository's own test suite passes with it (cargo test --offline, 927 + doc tests);
  3. the demonstration passes on the clean tree and fails with the patch;
  4. the registered check of the property is run against the patched tree (VERIF_REPO).
Prints a JSON summary on the last line.
"""
import hashlib
import json
import os
import re
import shutil
import subprocess
import sys
import time

VERIF = os.path.dirname(os.path.dirname(os.path.abspath(__file__)))


def sh(cmd, cwd=None, env=None, timeout=3600):
    p = subprocess.run(cmd, shell=isinstance(cmd, str), cwd=cwd, env=env, stdout=subprocess.PIPE, stderr=subprocess.STDOUT,
                       text=True, timeout=timeout)
    return p.returncode, p.stdout


def run_demo_rs(wt, demo, features, nightly):
    dst = os.path.join(wt, "jmespath", "tests", "zz_demo.rs")
    shutil.copy(demo, dst)
    cmd = ["cargo"] + (["+nightly"] if nightly else []) + ["test", "--offline", "--test", "zz_demo"]
    if features:
        cmd += ["--features", features]
    rc, out = sh(cmd, cwd=os.path.join(wt, "jmespath"))
    os.remove(dst)
    return rc, out


def build_jp(wt, tag):
    d = "/tmp/evs_jp_%s" % tag
    shutil.rmtree(d, ignore_errors=True)
    os.makedirs(d)
    with open(os.path.join(d, "Cargo.toml"), "w") as f:
        f.write('[package]\nname = "jmespath-cli"\nversion = "0.3.0"\nedition = "2018"\n[[bin]]\nname = "jp"\npath = "%s/jmespath-cli/src/main.rs"\n'
                '[dependencies]\nserde = "1"\nserde_json = "1"\nclap = "2.33"\njmespath = { path = "%s/jmespath" }\n[workspace]\n' % (wt, wt))
    shutil.copy(os.path.join(VERIF, "sim", "Cargo.lock"), os.path.join(d, "Cargo.lock"))
    rc, out = sh(["cargo", "build", "--offline", "--release"], cwd=d)
    return (os.path.join(d, "target", "release", "jp") if rc == 0 else None), out, d


def main():
    d = os.path.abspath(sys.argv[1])
    prop = sys.argv[2]
    tier = "quick"
    features = None
    nightly = "--nightly" in sys.argv
    if "--tier" in sys.argv:
        tier = sys.argv[sys.argv.index("--tier") + 1]
    if "--features" in sys.argv:
        features = sys.argv[sys.argv.index("--features") + 1]
    name = os.path.basename(d)
    wt = "/tmp/evs_%s_%d" % (name, os.getpid())
    res = {"name": name, "property": prop, "tier": tier}
    sh(["git", "-C", "/repo", "worktree", "add", "--detach", wt, "HEAD"])
    try:
        demo_rs = os.path.join(d, "demo.rs")
        demo_sh = os.path.join(d, "demo.sh")
        # 3a. demo on the clean tree
        if os.path.exists(demo_rs):
            rc, out = run_demo_rs(wt, demo_rs, features, nightly)
            res["demo_clean"] = "pass" if rc == 0 else "FAIL"
            if rc != 0:
                res["demo_clean_out"] = out[-1500:]
        elif os.path.exists(demo_sh):
            jp, out, jd = build_jp(wt, "clean_%d" % os.getpid())
            rc, out = sh(["bash", demo_sh, jp], cwd="/tmp") if jp else (99, out)
            res["demo_clean"] = "pass" if rc == 0 else "FAIL"
            if rc != 0:
                res["demo_clean_out"] = out[-1500:]
            shutil.rmtree(jd, ignore_errors=True)
        # 1. patch applies
        rc, out = sh(["git", "-C", wt, "apply", os.path.join(d, "patch.diff")])
        res["applies"] = rc == 0
        if rc != 0:
            res["apply_out"] = out[-800:]
            print(json.dumps(res))
            return
        # 2. repo tests
        rc, out = sh(["cargo", "test", "--offline"], cwd=os.path.join(wt, "jmespath"))
        passed = sum(int(x) for x in re.findall(r"test result: ok\. (\d+) passed", out))
        res["repo_tests"] = "pass (%d)" % passed if rc == 0 else "FAIL"
        if rc != 0:
            res["repo_tests_out"] = out[-1500:]
        # 3b. demo with the patch
        if os.path.exists(demo_rs):
            rc, out = run_demo_rs(wt, demo_rs, features, nightly)
            res["demo_patched"] = "fails (as intended)" if rc != 0 else "PASSES (demo does not show the defect)"
        elif os.path.exists(demo_sh):
            jp, out, jd = build_jp(wt, "pat_%d" % os.getpid())
            rc, out = sh(["bash", demo_sh, jp], cwd="/tmp") if jp else (0, out)
            res["demo_patched"] = "fails (as intended)" if rc != 0 else "PASSES (demo does not show the defect)"
            shutil.rmtree(jd, ignore_errors=True)
        # 4. my check
        env = dict(os.environ)
        env["VERIF_REPO"] = wt
        t0 = time.time()
        rc, out = sh([os.path.join(VERIF, "check"), prop, tier], env=env, timeout=4 * 3600)
        res["check_exit"] = rc
        res["check_wall_s"] = round(time.time() - t0, 1)
        res["check_lines"] = [l[:700] for l in out.splitlines() if l.startswith(("VIOLATION", "violation detail", "HARNESS", "KNOWN"))][:6]
        res["caught"] = rc == 1
        # keep the replay files the check wrote for this tree
        key = "alt_" + hashlib.sha1(wt.encode()).hexdigest()[:10]
        reps = os.path.join(VERIF, ".work", "alt", "replays")
        res["replays"] = []
        keep = os.path.join(VERIF, ".work", "kept_replays", name)
        for l in out.splitlines():
            if l.startswith("VIOLATION") and "replay=" in l:
                src = l.split("replay=")[1].strip()
                if os.path.exists(src):
                    os.makedirs(keep, exist_ok=True)
                    shutil.copy(src, keep)
                    res["replays"].append(os.path.join(keep, os.path.basename(src)))
        print(json.dumps(res))
    finally:
        sh(["git", "-C", "/repo", "worktree", "remove", "--force", wt])
        shutil.rmtree(wt, ignore_errors=True)
        key = "alt_" + hashlib.sha1(wt.encode()).hexdigest()[:10]
        shutil.rmtree(os.path.join(VERIF, ".work", "alt", key), ignore_errors=True)


main()
