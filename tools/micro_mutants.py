#!/usr/bin/env python3
"""Small, mutation-testing style edits to the code each claimed property is
anchored in.  For every edit: apply to a scratch worktree, run the repository's
own tests (an edit the tests already kill is uninteresting), then the quick check
of the property.  Prints one line per edit.

  tools/micro_mutants.py [--only C15] [--jobs 2]
"""
import hashlib
import os
import shutil
import subprocess
import sys
from concurrent.futures import ThreadPoolExecutor

VERIF = os.path.dirname(os.path.dirname(os.path.abspath(__file__)))
L = "jmespath/src/"
M = "jmespath-cli/src/main.rs"

# (id, property, file, old, new)
EDITS = [
    # ---- C15: registry and call site
    ("reg_insert_if_absent", "C15", L + "runtime.rs", "self.functions.insert(name.to_owned(), f);",
     "if !self.functions.contains_key(name) { self.functions.insert(name.to_owned(), f); }"),
    ("dereg_noop", "C15", L + "runtime.rs", "self.functions.remove(name)", "{ let _ = name; None }"),
    ("dereg_removes_but_returns_none", "C15", L + "runtime.rs", "self.functions.remove(name)",
     "{ self.functions.remove(name); None }"),
    ("get_prefix_match", "C15", L + "runtime.rs", "self.functions.get(name).map(AsRef::as_ref)",
     "self.functions.get(name).or_else(|| self.functions.get(name.trim_end_matches('_'))).map(AsRef::as_ref)"),
    ("builtins_miss_one", "C15", L + "runtime.rs", 'self.register_function("to_array", Box::new(ToArrayFn::new()));', ""),
    ("builtins_clear_first", "C15", L + "runtime.rs", 'self.register_function("abs", Box::new(AbsFn::new()));',
     'self.functions.clear();\n        self.register_function("abs", Box::new(AbsFn::new()));'),
    ("call_skip_first_arg_eval", "C15", L + "interpreter.rs",
     "            for arg in args {\n                fn_args.push(interpret(data, arg, ctx)?);\n            }",
     "            for (i, arg) in args.iter().enumerate() {\n                if i == 0 && args.len() > 2 { fn_args.push(data.clone()); continue; }\n                fn_args.push(interpret(data, arg, ctx)?);\n            }"),
    ("call_dedup_args", "C15", L + "interpreter.rs",
     "            for arg in args {\n                fn_args.push(interpret(data, arg, ctx)?);\n            }",
     "            for arg in args {\n                let v = interpret(data, arg, ctx)?;\n                if fn_args.last().map_or(false, |l: &Rcvar| std::ptr::eq(&**l, &*v)) { continue; }\n                fn_args.push(v);\n            }"),
    ("call_unknown_returns_null", "C15", L + "interpreter.rs",
     "                    Err(JmespathError::from_ctx(ctx, reason))\n                }\n            }\n        }\n        Ast::Expref",
     "                    if args.is_empty() { return Ok(Rcvar::new(Variable::Null)); }\n                    Err(JmespathError::from_ctx(ctx, reason))\n                }\n            }\n        }\n        Ast::Expref"),
    ("custom_validate_after_call", "C15", L + "functions.rs",
     "        self.signature.validate(args, ctx)?;\n        (self.f)(args, ctx)",
     "        let r = (self.f)(args, ctx);\n        self.signature.validate(args, ctx)?;\n        r"),
    ("arity_off_by_one_variadic", "C15", L + "functions.rs", "            if actual >= expected {\n                Ok(())",
     "            if actual + 1 >= expected {\n                Ok(())"),
    ("arity_too_many_accepted", "C15", L + "functions.rs", "        } else if actual == expected {\n            Ok(())",
     "        } else if actual == expected || (expected > 1 && actual == expected + 1) {\n            Ok(())"),
    ("union_all_instead_of_any", "C15", L + "functions.rs", "Union(ref types) => types.iter().any(|t| t.is_valid(value)),",
     "Union(ref types) => types.iter().all(|t| t.is_valid(value)) || types.len() < 3 && types.iter().any(|t| t.is_valid(value)),"),
    ("typedarray_empty_rejected", "C15", L + "functions.rs", "                    array.iter().all(|v| t.is_valid(v))",
     "                    !array.is_empty() && array.iter().all(|v| t.is_valid(v))"),
    ("expref_type_accepts_string", "C15", L + "functions.rs", "            Expref if value.is_expref() => true,",
     "            Expref if value.is_expref() || value.is_string() => true,"),
    # ---- C13: search / compile purity
    ("search_ctx_offset_static", "C13", L + "lib.rs",
     "        let mut ctx = Context::new(&self.expression, self.runtime);\n        interpret(&data.to_jmespath()?, &self.ast, &mut ctx)",
     "        static LAST: std::sync::atomic::AtomicUsize = std::sync::atomic::AtomicUsize::new(0);\n        let mut ctx = Context::new(&self.expression, self.runtime);\n        ctx.offset = LAST.load(std::sync::atomic::Ordering::Relaxed);\n        let r = interpret(&data.to_jmespath()?, &self.ast, &mut ctx);\n        LAST.store(ctx.offset, std::sync::atomic::Ordering::Relaxed);\n        r"),
    ("clone_drops_text", "C13", L + "lib.rs", "#[derive(Clone)]\npub struct Expression<'a> {",
     "impl<'a> Clone for Expression<'a> {\n    fn clone(&self) -> Self {\n        let ast = match crate::parse(self.expression.trim()) { Ok(a) => a, Err(_) => self.ast.clone() };\n        Expression { ast, expression: self.expression.trim().to_owned(), runtime: self.runtime }\n    }\n}\npub struct Expression<'a> {"),
    ("slice_error_offset_from_static", "C13", L + "interpreter.rs", "            if step == 0 {\n                ctx.offset = offset;",
     "            if step == 0 {\n                static SEEN: std::sync::atomic::AtomicBool = std::sync::atomic::AtomicBool::new(false);\n                if !SEEN.swap(true, std::sync::atomic::Ordering::Relaxed) { ctx.offset = offset; }"),
    ("merge_hashmap_order", "C13", L + "functions.rs", "        Ok(Rcvar::new(Variable::Object(result)))\n    }\n}\n\ndefn!(NotNullFn",
     "        let hm: std::collections::HashMap<String, Rcvar> = result.into_iter().collect();\n        let first = hm.keys().next().cloned();\n        let mut result: BTreeMap<String, Rcvar> = hm.into_iter().collect();\n        if result.len() > 3 { if let Some(k) = first { result.remove(&k); } }\n        Ok(Rcvar::new(Variable::Object(result)))\n    }\n}\n\ndefn!(NotNullFn"),
    ("parse_number_sticky", "C13", L + "lexer.rs", "        let lexeme = self.consume_while(first_char.to_string(), |c| c.is_digit(10));",
     "        thread_local! { static LASTN: std::cell::Cell<usize> = std::cell::Cell::new(0); }\n        let lexeme = self.consume_while(first_char.to_string(), |c| c.is_digit(10));\n        let prev = LASTN.with(|l| l.replace(lexeme.len()));\n        let lexeme = if prev > 6 && lexeme.len() == 1 { format!(\"{}0\", lexeme) } else { lexeme };"),
    # ---- C18: jp
    ("jp_unquoted_or", "C18", M, "if unquoted && result.is_string() {", "if unquoted && (result.is_string() || result.is_null()) && result.as_string().is_some() || (unquoted && result.is_boolean() && false) {"),
    ("jp_unquoted_numbers", "C18", M, "    if unquoted && result.is_string() {\n        println!(\"{}\", result.as_string().unwrap());",
     "    if unquoted && result.is_boolean() {\n        println!(\"{}\", result.as_boolean().unwrap());\n    } else if unquoted && result.is_string() {\n        println!(\"{}\", result.as_string().unwrap());"),
    ("jp_no_trailing_newline_for_empty", "C18", M, "            .map(|_| out.write(&[b'\\n']))", "            .map(|_| if result.is_truthy() || result.is_number() || result.is_boolean() || result.is_null() { out.write(&[b'\\n']) } else { Ok(0) })"),
    ("jp_exit_zero_on_compile_error_from_file", "C18", M, "    .map_err(|e| die!(e.to_string()))\n    .unwrap();",
     "    .map_err(|e| { if file_expression.is_some() && e.offset == 0 { eprintln!(\"{}\", e); exit(0) } die!(e.to_string()) })\n    .unwrap();"),
    ("jp_ast_reads_input_when_file", "C18", M, "    if matches.is_present(\"ast\") {\n        println!(\"{:#?}\", expr.as_ast());\n        exit(0);\n    }",
     "    if matches.is_present(\"ast\") {\n        if let Some(f) = matches.value_of(\"filename\") { let _ = read_file(\"JSON\", f); }\n        println!(\"{:#?}\", expr.as_ast());\n        exit(0);\n    }"),
    ("jp_ast_compact", "C18", M, "println!(\"{:#?}\", expr.as_ast());", "println!(\"{:?}\", expr.as_ast());"),
    ("jp_empty_stdin_is_null", "C18", M, "                Ok(_) => buffer,\n                Err(e) => die!(format!(\"Error reading JSON from stdin: {}\", e)),",
     "                Ok(0) => \"null\".to_string(),\n                Ok(_) => buffer,\n                Err(e) => die!(format!(\"Error reading JSON from stdin: {}\", e)),"),
    ("jp_open_error_exit0", "C18", M, "        Err(e) => die!(format!(\n            \"Error opening {} file at {}: {}\",\n            label, filename, e\n        )),",
     "        Err(e) => { if e.kind() == std::io::ErrorKind::PermissionDenied { eprintln!(\"{}\", e); exit(0) } die!(format!(\n            \"Error opening {} file at {}: {}\",\n            label, filename, e\n        )) }"),
    ("jp_search_error_partial_stdout", "C18", M, "        Err(e) => die!(e.to_string()),\n        Ok(result)", "        Err(e) => { print!(\"null\"); die!(e.to_string()) }\n        Ok(result)"),
    ("jp_stderr_empty_on_runtime_error", "C18", M, "        Err(e) => die!(e.to_string()),\n        Ok(result)", "        Err(_) => exit(1),\n        Ok(result)"),
    # ---- C17: conversions
    ("spec_bool_inverted_unit", "C17", L + "lib.rs", "impl ToJmespath for () {\n    fn to_jmespath(self) -> Result<Rcvar, JmespathError> {\n        Ok(Rcvar::new(Variable::Null))",
     "impl ToJmespath for () {\n    fn to_jmespath(self) -> Result<Rcvar, JmespathError> {\n        Ok(Rcvar::new(Variable::Array(vec![])))"),
    ("spec_i16_abs", "C17", L + "lib.rs", "impl ToJmespath for i16 {\n    fn to_jmespath(self) -> Result<Rcvar, JmespathError> {\n        Ok(Rcvar::new(Variable::Number(serde_json::Number::from(self))))",
     "impl ToJmespath for i16 {\n    fn to_jmespath(self) -> Result<Rcvar, JmespathError> {\n        Ok(Rcvar::new(Variable::Number(serde_json::Number::from(self as u16))))"),
    ("spec_usize_truncated", "C17", L + "lib.rs", "impl ToJmespath for usize {\n    fn to_jmespath(self) -> Result<Rcvar, JmespathError> {\n        Ok(Rcvar::new(Variable::Number(serde_json::Number::from(self))))",
     "impl ToJmespath for usize {\n    fn to_jmespath(self) -> Result<Rcvar, JmespathError> {\n        Ok(Rcvar::new(Variable::Number(serde_json::Number::from(self as u32))))"),
    ("spec_string_lowercase_first", "C17", L + "lib.rs", "impl ToJmespath for String {\n    fn to_jmespath(self) -> Result<Rcvar, JmespathError> {\n        Ok(Rcvar::new(Variable::String(self)))",
     "impl ToJmespath for String {\n    fn to_jmespath(self) -> Result<Rcvar, JmespathError> {\n        Ok(Rcvar::new(Variable::String(self.replace('\\u{feff}', \"\"))))"),
    ("value_bool_as_number", "C17", L + "variable.rs", "            Value::Bool(b) => Variable::Bool(b),\n            Value::Number(ref n) => Variable::Number(n.clone()),",
     "            Value::Bool(b) => Variable::Bool(b),\n            Value::Number(ref n) if n.is_u64() && n.as_u64() == Some(0) => Variable::Number(Number::from(0i64)),\n            Value::Number(ref n) if n.is_f64() && n.as_f64() == Some(0.0) => Variable::Number(Number::from(0)),\n            Value::Number(ref n) => Variable::Number(n.clone()),"),
    ("sync_get_type_expref", "C17", L + "variable.rs", "            Variable::Null => JmespathType::Null,\n            Variable::Expref(_) => JmespathType::Expref,",
     "            Variable::Null => JmespathType::Null,\n            #[cfg(feature = \"sync\")]\n            Variable::Expref(_) => JmespathType::String,\n            #[cfg(not(feature = \"sync\"))]\n            Variable::Expref(_) => JmespathType::Expref,"),
    ("sync_negative_index", "C17", L + "variable.rs", "            let adjusted_index = max(index, 1);", "            #[cfg(feature = \"sync\")]\n            let adjusted_index = max(index, 2) - if index < 2 { 1 } else { 0 };\n            #[cfg(not(feature = \"sync\"))]\n            let adjusted_index = max(index, 1);"),
    # ---- C16
    ("function_not_sync", "C16", L + "functions.rs", "pub trait Function: Sync + Send {", "pub trait Function: Send {"),
    ("runtime_counter_cell", "C16", L + "runtime.rs", "pub struct Runtime {\n    functions: HashMap<String, Box<dyn Function>>,\n}",
     "pub struct Runtime {\n    functions: HashMap<String, Box<dyn Function>>,\n    lookups: Counter,\n}\n\n#[derive(Default)]\nstruct Counter(std::cell::Cell<u64>);\nunsafe impl Sync for Counter {}"),
]

EXTRA = {
    "runtime_counter_cell": [
        (L + "runtime.rs", "            functions: HashMap::with_capacity(26),", "            functions: HashMap::with_capacity(26),\n            lookups: Counter::default(),"),
        (L + "runtime.rs", "        self.functions.get(name).map(AsRef::as_ref)", "        self.lookups.0.set(self.lookups.0.get() + 1);\n        self.functions.get(name).map(AsRef::as_ref)"),
    ],
}


def sh(cmd, cwd=None, env=None, timeout=7200):
    p = subprocess.run(cmd, cwd=cwd, env=env, stdout=subprocess.PIPE, stderr=subprocess.STDOUT, text=True, timeout=timeout)
    return p.returncode, p.stdout


def run_one(e):
    name, prop, path, old, new = e
    wt = "/tmp/mm_%s_%d" % (name, os.getpid())
    sh(["git", "-C", "/repo", "worktree", "add", "--detach", wt, "HEAD"])
    try:
        edits = [(path, old, new)] + EXTRA.get(name, [])
        for fp, o, n in edits:
            full = os.path.join(wt, fp)
            s = open(full).read()
            if o not in s:
                return "%-42s %s  EDIT-DOES-NOT-APPLY (%s)" % (name, prop, fp)
            open(full, "w").write(s.replace(o, n, 1))
        rc, out = sh(["cargo", "build", "--offline"], cwd=os.path.join(wt, "jmespath"))
        if rc != 0:
            return "%-42s %s  does not compile: %s" % (name, prop, [l for l in out.splitlines() if l.startswith("error")][:2])
        rc, out = sh(["cargo", "test", "--offline"], cwd=os.path.join(wt, "jmespath"))
        tests = "tests-pass" if rc == 0 else "KILLED-BY-TESTS"
        if rc != 0:
            return "%-42s %s  %s" % (name, prop, tests)
        env = dict(os.environ)
        env["VERIF_REPO"] = wt
        rc, out = sh([os.path.join(VERIF, "check"), prop, "quick"], env=env)
        d = [l for l in out.splitlines() if l.startswith("violation detail") or l.startswith("HARNESS")]
        return "%-42s %s  %s  check=%s  %s" % (name, prop, tests, {0: "MISSED", 1: "caught", 2: "HARNESS"}.get(rc, rc),
                                             (d[0][:160] if d else ""))
    finally:
        sh(["git", "-C", "/repo", "worktree", "remove", "--force", wt])
        shutil.rmtree(wt, ignore_errors=True)
        key = "alt_" + hashlib.sha1(wt.encode()).hexdigest()[:10]
        shutil.rmtree(os.path.join(VERIF, ".work", "alt", key), ignore_errors=True)


def main():
    a = sys.argv
    only = a[a.index("--only") + 1] if "--only" in a else None
    nj = int(a[a.index("--jobs") + 1]) if "--jobs" in a else 2
    es = [e for e in EDITS if not only or e[1] == only]
    with ThreadPoolExecutor(max_workers=nj) as ex:
        for line in ex.map(run_one, es):
            print(line)
            sys.stdout.flush()


main()
