#!/bin/bash
# Quick tier of every claimed check under several VERIF_SEED values on the unchanged
# tree: every line must say "0 violation(s)" and exit 0.
cd "$(dirname "$0")/.."
FROM=${1:-1}; TO=${2:-8}
for s in $(seq $FROM $TO); do
  for p in C13 C15 C17 C18 C16; do
    out=$(VERIF_SEED=$s ./check $p quick 2>&1); rc=$?
    echo "seed=$s $p exit=$rc $(echo "$out" | tail -1 | cut -c1-120)"
    [ $rc != 0 ] && echo "$out" | grep -E "VIOLATION|violation detail|HARNESS" | cut -c1-1500
  done
done
