#!/usr/bin/env python3-vt
import json, jsonschema, sys, glob
m=json.load(open('/verif/MANIFEST.json')); s=json.load(open('/root/.vp/MANIFEST.schema.json'))
jsonschema.validate(m,s); print("manifest valid; claimed:", [c['property_id'] for c in m['checks']])
es=json.load(open('/root/.vp/EVIDENCE.schema.json'))
for c in m['checks']:
    p=c['property_id']
    try:
        jsonschema.validate(json.load(open('/verif/evidence/%s.json'%p)),es); print(p,"evidence valid")
    except Exception as e:
        print(p,"EVIDENCE INVALID:",str(e)[:300])
props=[json.loads(l)['id'] for l in open('/verif/properties.jsonl')]
covered=set(c['property_id'] for c in m['checks'])|set(n['property_id'] for n in m.get('not_applicable',[]))
print("uncovered:", [p for p in props if p not in covered])
