//! Type-level obligations of C16, checked by the compiler under
//! `--features sync`: these types must be Send + Sync.

#![allow(dead_code)]

use jmespath::ast::Ast;
use jmespath::functions::Function;
use jmespath::{Expression, JmespathError, Rcvar, Runtime, Variable};

fn send_sync<T: Send + Sync + ?Sized>() {}

pub fn all() {
    send_sync::<Expression<'static>>();
    send_sync::<Runtime>();
    send_sync::<Variable>();
    send_sync::<Rcvar>();
    send_sync::<Ast>();
    send_sync::<JmespathError>();
    send_sync::<Box<dyn Function>>();
    send_sync::<dyn Function>();
    send_sync::<jmespath::functions::CustomFunction>();
    send_sync::<Result<Rcvar, JmespathError>>();
}
