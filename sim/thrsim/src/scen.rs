//! Scenario generation and execution.

use jmespath::{Context, Expression, JmespathError, Rcvar, Runtime, Variable};
use serde_json::{json, Value};
use simcore::{mix, ExprGen, ExtraFns, Hasher64, Rng, J};
use std::sync::atomic::{AtomicUsize, Ordering::Relaxed};

#[derive(Clone, Debug)]
pub enum Op {
    /// search a pre-compiled shared expression over a shared document
    Search { e: usize, d: usize, form: u8 },
    /// compile through the shared default runtime (first use may be contended), then search
    CompileSearch { text: String, d: usize },
    /// compile from the shared custom runtime, then search
    CustomSearch { text: String, d: usize },
    /// clone the shared expression, search with the clone, drop it
    CloneSearch { e: usize, d: usize },
    /// search, then render the result (which may alias the shared document) as JSON
    ToString { e: usize, d: usize },
    /// harness-level sequencing WITHOUT synchronisation: spin (Relaxed loads only, so no
    /// happens-before edge is created) until thread `t` has completed `n` operations
    WaitFor { t: usize, n: usize },
    /// rendezvous of all threads; between the two halves of it the main thread drops the
    /// current generation of shared expressions (compiled by it) and compiles the next one
    Phase,
    /// search expression `e` of the CURRENT generation (see `Phase`)
    SearchGen { e: usize, d: usize },
    /// hand-off, giving side: search and leave the RESULT VALUE (which may alias the shared
    /// document) in slot `slot` for another thread
    GiveVal { slot: usize, e: usize, d: usize },
    /// hand-off, taking side: wait for the value of `slot` (produced elsewhere as `pe` over
    /// `pd`), search it with `e`, render it, and drop it HERE -- possibly its last reference
    TakeVal { slot: usize, e: usize, pe: usize, pd: usize },
    /// compile on this thread and leave the EXPRESSION in `slot` for another thread
    GiveExpr { slot: usize, text: String, custom: bool },
    /// wait for the expression of `slot`, search `d` with it and with a clone of it, and
    /// drop both here (the compiling thread may be gone by then)
    TakeExpr { slot: usize, d: usize, text: String, custom: bool },
}

#[derive(Clone, Debug)]
pub struct Scenario {
    pub docs: Vec<String>,
    /// (custom runtime?, text)
    pub pre: Vec<(bool, String)>,
    /// use the default runtime on the main thread before spawning (no first-use race)
    pub touch_default_first: bool,
    pub threads: Vec<Vec<Op>>,
    /// thread 0's operations run on the main thread -- the one that compiled the shared
    /// expressions and will drop them -- at the same time as the spawned threads
    pub main_runs: bool,
    /// expression generations after the first (one per `Phase`), texts compiled by the main thread
    pub gens: Vec<Vec<String>>,
}

fn op_json(o: &Op) -> Value {
    match o {
        Op::Search { e, d, form } => json!({"k":"search","e":e,"d":d,"form":form}),
        Op::CompileSearch { text, d } => json!({"k":"compile_search","text":text,"d":d}),
        Op::CustomSearch { text, d } => json!({"k":"custom_search","text":text,"d":d}),
        Op::CloneSearch { e, d } => json!({"k":"clone_search","e":e,"d":d}),
        Op::ToString { e, d } => json!({"k":"to_string","e":e,"d":d}),
        Op::WaitFor { t, n } => json!({"k":"wait_for","t":t,"n":n}),
        Op::Phase => json!({"k":"phase"}),
        Op::SearchGen { e, d } => json!({"k":"search_gen","e":e,"d":d}),
        Op::GiveVal { slot, e, d } => json!({"k":"give_val","slot":slot,"e":e,"d":d}),
        Op::TakeVal { slot, e, pe, pd } => json!({"k":"take_val","slot":slot,"e":e,"pe":pe,"pd":pd}),
        Op::GiveExpr { slot, text, custom } => json!({"k":"give_expr","slot":slot,"text":text,"custom":custom}),
        Op::TakeExpr { slot, d, text, custom } => json!({"k":"take_expr","slot":slot,"d":d,"text":text,"custom":custom}),
    }
}

pub fn to_json(s: &Scenario) -> Value {
    json!({
        "docs": s.docs,
        "pre": s.pre.iter().map(|(c, t)| json!({"custom": c, "text": t})).collect::<Vec<_>>(),
        "touch_default_first": s.touch_default_first,
        "threads": s.threads.iter().map(|t| t.iter().map(op_json).collect::<Vec<_>>()).collect::<Vec<_>>(),
        "main_runs": s.main_runs,
        "gens": s.gens,
    })
}

pub fn from_json(v: &Value) -> Scenario {
    let us = |x: &Value, k: &str| x.get(k).and_then(|y| y.as_u64()).unwrap_or(0) as usize;
    let st = |x: &Value, k: &str| x.get(k).and_then(|y| y.as_str()).unwrap_or("").to_string();
    Scenario {
        docs: v["docs"].as_array().map(|a| a.iter().filter_map(|x| x.as_str().map(|s| s.to_string())).collect()).unwrap_or_default(),
        pre: v["pre"]
            .as_array()
            .map(|a| a.iter().map(|x| (x["custom"].as_bool().unwrap_or(false), st(x, "text"))).collect())
            .unwrap_or_default(),
        touch_default_first: v["touch_default_first"].as_bool().unwrap_or(false),
        threads: v["threads"]
            .as_array()
            .map(|ts| {
                ts.iter()
                    .map(|t| {
                        t.as_array()
                            .map(|ops| {
                                ops.iter()
                                    .map(|o| match st(o, "k").as_str() {
                                        "search" => Op::Search { e: us(o, "e"), d: us(o, "d"), form: us(o, "form") as u8 },
                                        "compile_search" => Op::CompileSearch { text: st(o, "text"), d: us(o, "d") },
                                        "custom_search" => Op::CustomSearch { text: st(o, "text"), d: us(o, "d") },
                                        "clone_search" => Op::CloneSearch { e: us(o, "e"), d: us(o, "d") },
                                        "wait_for" => Op::WaitFor { t: us(o, "t"), n: us(o, "n") },
                                        "phase" => Op::Phase,
                                        "search_gen" => Op::SearchGen { e: us(o, "e"), d: us(o, "d") },
                                        "give_val" => Op::GiveVal { slot: us(o, "slot"), e: us(o, "e"), d: us(o, "d") },
                                        "take_val" => Op::TakeVal { slot: us(o, "slot"), e: us(o, "e"), pe: us(o, "pe"), pd: us(o, "pd") },
                                        "give_expr" => Op::GiveExpr { slot: us(o, "slot"), text: st(o, "text"), custom: o["custom"].as_bool().unwrap_or(false) },
                                        "take_expr" => Op::TakeExpr { slot: us(o, "slot"), d: us(o, "d"), text: st(o, "text"), custom: o["custom"].as_bool().unwrap_or(false) },
                                        _ => Op::ToString { e: us(o, "e"), d: us(o, "d") },
                                    })
                                    .collect()
                            })
                            .unwrap_or_default()
                    })
                    .collect()
            })
            .unwrap_or_default(),
        main_runs: v["main_runs"].as_bool().unwrap_or(false),
        gens: v["gens"]
            .as_array()
            .map(|gs| {
                gs.iter()
                    .map(|g| g.as_array().map(|ts| ts.iter().filter_map(|t| t.as_str().map(|x| x.to_string())).collect()).unwrap_or_default())
                    .collect()
            })
            .unwrap_or_default(),
    }
}

fn small_doc(r: &mut Rng) -> J {
    let n = 2 + r.below(3);
    let odd = if r.chance(1, 3) { r.below(n) } else { 99 };
    let xs: Vec<J> = (0..n)
        .map(|i| {
            J::Obj(vec![
                ("k".into(), if i == odd { J::Str("odd".into()) } else { J::Int(r.range(-3, 9)) }),
                ("id".into(), J::Int(i as i64)),
            ])
        })
        .collect();
    J::Obj(vec![
        ("xs".into(), J::Arr(xs)),
        ("a".into(), J::Arr((0..(1 + r.below(3))).map(|_| J::Int(r.range(-3, 9))).collect())),
        ("s".into(), J::Str((*r.pick(&["x", "abc", "\u{e4}"])).to_string())),
    ])
}

/// One expression per interpreter feature, so that a scenario can make sure every
/// feature is being evaluated by at least two threads at the same time.
const KINDS: &[&str] = &[
    "`[3, 1, 2]`",                                  // literal shared through the tree
    "[?@ != `null`] | [0] || `\"lit\"`",           // filter, comparison with a literal, pipe, or
    "sort_by(xs, &id)[*].id || sort(a)",            // function with expression reference, projection
    "{p: a, q: s, r: `1.5`}",                       // multi-select hash
    "[a, s, xs[0]]",                                // multi-select list (results alias the document)
    "xs[::-1] || a[::-1]",                          // slice
    "xs[].id || a[]",                               // flatten
    "*",                                            // object values
    "!a && s",                                      // not / and
    "map(&abs(@), a) || map(&[0], @)",              // map + nested call
    "to_string(@)",                                 // serialisation
    "a[0] < a[1]",                                  // ordering comparison
    "merge(`{\"q\": 1}`, {z: s})",                 // merge with a literal object
    "length(xs) || length(@)",
    "max_by(xs, &id).id || max(a)",
    "'raw' == s",
];

fn gen_text(r: &mut Rng, base: &J, custom: bool) -> String {
    let extra = ExtraFns { unary: vec!["cid".into()] };
    let none = ExtraFns::default();
    let ex = if custom { &extra } else { &none };
    match r.below(10) {
        0 | 1 => (*r.pick(&[
            "sort_by(xs, &k)[*].id",       // fails midway when a k switches type
            "map(&abs(k), xs)",
            "xs[*].abs(k)",
            "max_by(xs, &k).id",
        ]))
        .to_string(),
        2 => (*r.pick(&["`[3, 1, 2]`", "sort(`[3, 1, 2]`)", "[`{\"z\": [1, 2]}`, a]", "`\"lit\"`", "merge(`{\"q\": 1}`, @)"])).to_string(),
        3 => (*r.pick(&["a", "xs", "@", "xs[0]", "a[-1]"])).to_string(), // results alias the shared document
        _ => {
            let d = 1 + r.below(2) as u32;
            let mut g = ExprGen::new(r, ex);
            g.extra_pct = if custom { 50 } else { 0 };
            g.for_doc(base, d)
        }
    }
}

/// Classes about WHICH thread does what (added after round 6 of the seeded changes):
/// * "owner": the main thread compiled the shared expressions and searches them itself,
///   at the same time as the spawned threads (anything biased towards, or keyed by, the
///   compiling thread);
/// * "rounds": long-lived threads search generation after generation of shared
///   expressions; each generation is compiled and later dropped by the main thread, and
///   the generations differ only in the operand of an expression reference (state that a
///   thread keeps about an expression it did not create and will not see dropped);
/// * "badpool": all threads compile the same few texts in lockstep, half of them with a
///   syntax error near the END of a long text (whatever coalesces or caches compiles must
///   also cope with the failing ones).
fn generate_roles(r: &mut Rng, class: &str) -> Scenario {
    let base = small_doc(r);
    let mut docs = vec![base.to_json()];
    for _ in 0..2 {
        docs.push(base.mutated(r).to_json());
    }
    let mut threads = vec![];
    if class == "owner" {
        let pre: Vec<(bool, String)> = [
            "sort_by(xs, &id)[*].id",
            "map(&abs(@), a)",
            "length(xs)",
            "max_by(xs, &id).id",
            "join('-', [s, s])",
            "abs(a[0]) || to_string(xs[0])",
        ]
        .iter()
        .map(|t| (true, t.to_string()))
        .collect();
        for t in 0..3 {
            let mut ops = vec![];
            for i in 0..(7 + r.below(3)) {
                let e = (t + i) % pre.len();
                let d = r.below(docs.len());
                ops.push(match r.below(6) {
                    0 => Op::CloneSearch { e, d },
                    1 => Op::ToString { e, d },
                    _ => Op::Search { e, d, form: (i % 3) as u8 },
                });
            }
            threads.push(ops);
        }
        return Scenario { docs, pre, touch_default_first: true, threads, main_runs: true, gens: vec![] };
    }
    if class == "rounds" {
        let n = *r.pick(&[5usize, 7]);
        let mut recs = vec![];
        for i in 0..n {
            recs.push(J::Obj(vec![
                ("a".into(), J::Int(((i * 2 + 1) % n) as i64)),
                ("b".into(), J::Int(((i * 3 + 2) % n) as i64 * 2)),
                ("c".into(), J::Int((n - i) as i64)),
                ("id".into(), J::Int(i as i64)),
            ]));
        }
        docs = vec![J::Obj(vec![("xs".into(), J::Arr(recs))]).to_json()];
        let texts = |f: &str| -> Vec<String> {
            vec![
                format!("sort_by(xs, &{})[*].id", f),
                format!("max_by(xs, &{}).id", f),
                format!("map(&{}, xs)", f),
                format!("min_by(xs, &{}).id", f),
            ]
        };
        let pre: Vec<(bool, String)> = texts("a").into_iter().map(|t| (true, t)).collect();
        let gens = vec![texts("b"), texts("c"), texts("a")];
        for t in 0..3 {
            let mut ops = vec![];
            for g in 0..4 {
                if g > 0 {
                    ops.push(Op::Phase);
                }
                for i in 0..4 {
                    ops.push(Op::SearchGen { e: (t + i) % 4, d: 0 });
                }
            }
            threads.push(ops);
        }
        return Scenario { docs, pre, touch_default_first: true, threads, main_runs: true, gens };
    }
    if class == "handoff" {
        // Values and compiled expressions cross thread boundaries: thread t gives to thread
        // t+1 (mod n). Every thread gives everything it has to give BEFORE its first take, so
        // no cycle of waits exists. Results alias the shared documents (identity, members,
        // slices), are searched again by the taker and dropped there.
        let pre: Vec<(bool, String)> = [
            "@",
            "xs",
            "xs[?id > `0`]",
            "sort_by(xs, &id)",
            "{k: xs[0], l: a, m: s}",
            "[a, xs[*].id, s]",
            "length(@)",
            "xs[*].id",
            "keys(@)",
            "to_string(@)",
            "max_by(xs, &id)",
            "not_null(a, xs)",
        ]
        .iter()
        .map(|t| (true, t.to_string()))
        .collect();
        let producers = 6; // indices 0..6 of `pre` make the values, any index consumes them
        let texts = ["sort_by(xs, &id)[*].id", "map(&abs(@), a)", "xs[?id >", "join('-', [s, s])", "max_by(xs, &id).id", "length(@)"];
        let n = 3 + r.below(2);
        let per = 3 + r.below(2);
        let mut gives: Vec<Vec<Op>> = vec![vec![]; n];
        let mut takes: Vec<Vec<Op>> = vec![vec![]; n];
        let mut slot = 0;
        for t in 0..n {
            let to = (t + 1 + r.below(n - 1)) % n;
            for i in 0..per {
                if r.chance(2, 3) {
                    let (e, d) = (r.below(producers), r.below(docs.len()));
                    gives[t].push(Op::GiveVal { slot, e, d });
                    takes[to].push(Op::TakeVal { slot, e: r.below(pre.len()), pe: e, pd: d });
                } else {
                    let text = texts[(t + i + r.below(2)) % texts.len()].to_string();
                    let custom = r.chance(1, 2);
                    gives[t].push(Op::GiveExpr { slot, text: text.clone(), custom });
                    takes[to].push(Op::TakeExpr { slot, d: r.below(docs.len()), text, custom });
                }
                slot += 1;
            }
        }
        for t in 0..n {
            let mut ops = std::mem::take(&mut gives[t]);
            // something of its own between giving and taking, so that givers finish (and
            // some exit) at different moments
            for _ in 0..r.below(3) {
                ops.push(Op::Search { e: r.below(pre.len()), d: r.below(docs.len()), form: r.below(3) as u8 });
            }
            ops.extend(std::mem::take(&mut takes[t]));
            threads.push(ops);
        }
        return Scenario { docs, pre, touch_default_first: r.chance(1, 2), threads, main_runs: r.chance(1, 3), gens: vec![] };
    }
    if class == "tostr" {
        // One thread renders a big document with to_string / join / to_array while the
        // others make many short calls of the same functions that start and finish inside it
        // (added after seeded change c16r7_render_buffer_release: a retained output buffer
        // whose busy flag is cleared by a caller that never owned it).
        let big: Vec<J> = (0..(120 + r.below(60))).map(|i| J::Obj(vec![("id".into(), J::Int(i as i64)), ("s".into(), J::Str(format!("v{}", i % 7)))])).collect();
        docs.push(J::Obj(vec![("xs".into(), J::Arr(big)), ("a".into(), J::Arr(vec![J::Int(1), J::Int(-2)])), ("s".into(), J::Str("big".into()))]).to_json());
        let bigd = docs.len() - 1;
        let pre: Vec<(bool, String)> = ["to_string(@)", "to_string(xs)", "to_string(a)", "to_string({k: s, l: a})", "join(',', xs[*].to_string(@))", "to_string(xs[0])"]
            .iter()
            .map(|t| (true, t.to_string()))
            .collect();
        threads.push(vec![Op::Search { e: r.below(2), d: bigd, form: 0 }, Op::Search { e: 1, d: bigd, form: 0 }]);
        for t in 0..2 {
            let mut ops = vec![];
            for i in 0..(8 + r.below(5)) {
                ops.push(Op::Search { e: 2 + (t + i) % 4, d: r.below(bigd), form: 0 });
            }
            threads.push(ops);
        }
        return Scenario { docs, pre, touch_default_first: true, threads, main_runs: false, gens: vec![] };
    }
    // badpool
    let long = (0..10).map(|i| format!("\"member-{:03}\"", i)).collect::<Vec<_>>().join(", ");
    // the same members one per line: errors in these texts carry another line / column layout
    let long_nl = (0..10).map(|i| format!("\"member-{:03}\"", i)).collect::<Vec<_>>().join(",\n  ");
    let texts = vec![
        format!("length(`[{}]`) || s", long),
        format!("length(`[{}]`) || s ||| a", long_nl),
        "xs[?id > `0`].id".to_string(),
        format!("[`[{}]`, a,\n xs[?id >", long),
        // fails at run time (invalid type), far into a text of several lines
        format!("[`[{}]`,\n\n abs(`\"x\"`)]", long),
        format!("length(`[{}]`) || s ||| a", long),
    ];
    // in step (everybody at the same text) or skewed by thread (different texts fail at once)
    let skew = class == "badskew";
    for t in 0..3 {
        let mut ops = vec![];
        for i in 0..(6 + r.below(3)) {
            let text = texts[(i + if skew { 2 * t } else { 0 }) % texts.len()].clone();
            let d = r.below(docs.len());
            ops.push(if (i / 4 + t / 4) % 2 == 0 { Op::CompileSearch { text, d } } else { Op::CustomSearch { text, d } });
        }
        threads.push(ops);
    }
    Scenario { docs, pre: vec![(true, "a".to_string())], touch_default_first: true, threads, main_runs: false, gens: vec![] }
}

/// `race`: build the scenario around the first use of the default runtime — it is
/// untouched before the spawn and every thread starts by compiling through it.
pub fn generate(seed: u64, class: &str) -> Scenario {
    let race = class == "race";
    // "late": one thread initialises the default runtime at once, the others first do
    // unrelated work and touch it only afterwards (no happens-before between siblings).
    let late = class == "late";
    // "pool": steady state; all threads keep compiling the same few texts through the
    // default runtime at the same time (anything keyed by expression text is contended).
    let pool = class == "pool";
    // "deep": several threads sit deep inside nested function calls (and nested sort_by /
    // map with expression references) at the same time: anything that counts, pools or
    // locks per call is under pressure from all of them at once.
    let deep = class == "deep";
    // "hot": the same few functions are called well over a thousand times, from all
    // threads: state that only wakes up after N calls (statistics, inline caches) wakes up.
    let hot = class == "hot";
    // "shared": a handful of expressions compiled ONCE (through the shared custom runtime)
    // and searched by every thread, all threads walking them in the same order (so the very
    // first evaluation of each is contended) and two of them dozens of times (state that an
    // Expression, its tree or its literals acquire after N searches).
    let shared = class == "shared";
    // "crowd": more threads than any small fixed-size per-thread table has slots (20).
    let crowd = class == "crowd";
    // "bigsort": a few threads sorting thousands of elements at once (size-thresholded
    // code paths: worker pools, chunking, scratch buffers).
    let bigsort = class == "bigsort";
    // "manytexts": over a thousand distinct expressions through one runtime, then cache
    // hits racing cache misses (bounded caches start evicting).
    let manytexts = class == "manytexts";
    // "longrun": several thousand cheap searches with a nested call, from four threads:
    // anything periodic (every 4096th call ...) gets its turn.
    let longrun = class == "longrun";
    // "bigproj": two threads projecting, filtering and flattening an array of a few thousand
    // DISTINCT elements and looking at positions spread over the whole result: work that a
    // library might split into chunks or hand to helper threads of its own (Miri is told the
    // machine has 8 CPUs) must still come back in order.
    let bigproj = class == "bigproj";
    let mut r = Rng::new(seed);
    if class == "owner" || class == "rounds" || class == "badpool" || class == "badskew" || class == "handoff" || class == "tostr" {
        return generate_roles(&mut r, class);
    }
    let (main_runs, gens) = (false, vec![]);
    let mut base = small_doc(&mut r);
    if class != "general" && class != "shared" && class != "crowd" && r.chance(1, 2) {
        // top-level array documents: the records array itself
        if let J::Obj(m) = &base {
            if let Some((_, xs)) = m.iter().find(|(k, _)| k == "xs") {
                base = xs.clone();
            }
        }
    }
    let ndocs = 2 + r.below(2);
    #[allow(unused_assignments)]
    let mut docs = vec![base.to_json()];
    for _ in 1..ndocs {
        docs.push(base.mutated(&mut r).to_json());
    }
    let npre = 1 + r.below(2);
    let touch_default_first = if race || late { false } else if pool || deep || hot || shared || crowd || bigsort || manytexts || longrun || bigproj { true } else { r.chance(1, 2) };
    #[allow(unused_assignments)]
    let mut pre = vec![];
    for _ in 0..npre {
        // without a prior touch, pre-compiled expressions must come from the custom runtime,
        // otherwise compiling them would itself be the first use of the default runtime
        let custom = if touch_default_first { r.chance(1, 3) } else { true };
        pre.push((custom, gen_text(&mut r, &base, custom)));
    }
    if hot {
        // rows: 280 small number arrays -> one map(&min(@), rows) is 280 calls of min
        let rows: Vec<J> = (0..280).map(|i| J::Arr(vec![J::Int(9 - (i % 7)), J::Int(1 + (i % 5)), J::Int(4)])).collect();
        docs = vec![J::Obj(vec![("rows".into(), J::Arr(rows))]).to_json()];
    }
    if deep {
        let groups: Vec<J> = (0..3)
            .map(|g| {
                J::Obj(vec![(
                    "items".into(),
                    J::Arr((0..3).map(|i| J::Obj(vec![("v".into(), J::Int(((g * 7 + i * 5) % 11) as i64))])).collect()),
                )])
            })
            .collect();
        docs = vec![J::Obj(vec![("groups".into(), J::Arr(groups)), ("a".into(), J::Arr(vec![J::Int(-3), J::Int(2)]))]).to_json()];
    }
    if shared {
        // The big values live INSIDE the expressions, as literals: those are shared by all
        // threads in every build (an input document is deep-copied per search under plain
        // `sync`), and they make the searches cheap enough for Miri.  33 records with only
        // three distinct sort keys, 33 numbers, 33 strings: long enough for size-thresholded
        // paths in sort / sort_by / join / map / contains, and full of ties.
        let recs = J::Arr(
            (0..33).map(|i| J::Obj(vec![("k".into(), J::Int((i * 7 % 3) as i64)), ("id".into(), J::Int(i as i64))])).collect(),
        )
        .to_json();
        let nums = J::Arr((0..33).map(|i| J::Int(((i * 11) % 17) as i64 - 5)).collect()).to_json();
        let names = J::Arr((0..33).map(|i| J::Str(format!("n{:02}", (i * 13) % 33))).collect()).to_json();
        pre = vec![
            format!("sort(`{}`)", nums),
            format!("[contains(`{}`, s), contains(`{}`, `\"n07\"`)]", names, names),
            format!("sort_by(`{}`, &k)[*].id", recs),
            format!("map(&abs(@), `{}`)", nums),
            format!("{{p: `[1, 2, 3]`, q: a, r: reverse(`{}`)[:3]}}", names),
            format!("max_by(`{}`, &id).id", recs),
            format!("[length(`{}`), join('-', `{}`), merge(`{{\"a\": 1}}`, `{{\"b\": 2}}`)]", nums, names),
            "cid(a) || to_array(s)".to_string(),
            format!("sort(`{}`)[:3]", names),
        ]
        .into_iter()
        .map(|t| (true, t))
        .collect();
        docs = vec!["{\"s\": \"h\", \"a\": [3, -1]}".to_string(), "{\"s\": \"n07\", \"a\": [-4]}".to_string()];
    }
    if longrun {
        pre = vec![(true, "map(&abs(@), a)".to_string())];
        docs = vec!["{\"a\": [-1]}".to_string()];
    }
    if bigproj {
        let n = *r.pick(&[2048usize, 2100, 2304]);
        let ys: Vec<J> = (0..n).map(|i| J::Int(i as i64 * 3 - 17)).collect();
        docs = vec![J::Obj(vec![("ys".into(), J::Arr(ys))]).to_json()];
        pre = vec![(true, "ys[*].abs(@) | [::263]".to_string())];
    }
    if bigsort {
        let ys: Vec<J> = (0..4600).map(|i| J::Int(((i * 7919) % 4001) as i64)).collect();
        let zs: Vec<J> = (0..4300).map(|i| J::Int(((i * 104729) % 3001) as i64 + 5000)).collect();
        docs = vec![J::Obj(vec![("ys".into(), J::Arr(ys))]).to_json(), J::Obj(vec![("ys".into(), J::Arr(zs))]).to_json()];
    }
    let nthreads = if pool { 3 + r.below(2) } else if deep { 5 } else if hot || shared { 4 } else if crowd { 20 } else if bigsort { 3 } else if bigproj { 2 } else if manytexts { 2 } else if longrun { 4 } else { 2 + r.below(3) };
    let mut pool_texts: Vec<String> = vec!["a".to_string(), "s".to_string(), String::new()];
    if !pool {
        pool_texts = (0..3).map(|_| gen_text(&mut r, &base, false)).collect();
    }
    // one of the pooled texts carries a literal of about 330 bytes: every compile makes
    // (or shares) it and every finished operation drops it, on several threads at once
    pool_texts[2] = format!(
        "length(`[{}]`) || s",
        (0..24).map(|i| format!("\"member-{:03}\"", i)).collect::<Vec<_>>().join(", ")
    );
    let mut threads = vec![];
    for t in 0..nthreads {
        let nops = 2 + r.below(4);
        let mut ops = vec![];
        if race || (late && t == 0) {
            let d = r.below(docs.len());
            ops.push(Op::CompileSearch { text: gen_text(&mut r, &base, false), d });
        }
        if late && t > 0 {
            for _ in 0..r.below(2) {
                let d = r.below(docs.len());
                ops.push(Op::CustomSearch { text: gen_text(&mut r, &base, true), d });
            }
            // only start using the default runtime once thread 0 has finished its first
            // operation (which initialised it)
            ops.push(Op::WaitFor { t: 0, n: 1 });
            let d = r.below(docs.len());
            ops.push(Op::CompileSearch { text: gen_text(&mut r, &base, false), d });
        }
        if crowd {
            ops.push(Op::CompileSearch { text: "sort_by(xs, &id)[*].id".to_string(), d: 0 });
            ops.push(Op::CompileSearch { text: "max_by(xs, &id).id || sort(a)".to_string(), d: 0 });
        }
        if bigsort {
            ops.push(Op::CompileSearch { text: "sort(ys)[:3]".to_string(), d: t % 2 });
            ops.push(Op::CompileSearch { text: "sort(ys)[-1]".to_string(), d: (t + 1) % 2 });
            ops.push(Op::CompileSearch { text: "ys[*] | [::517]".to_string(), d: t % 2 });
        }
        if bigproj {
            let texts = ["ys[*] | [::263]", "ys[?@ > `40`] | [::199]", "[ys, ys][] | [::401]", "ys[*].to_string(@) | [1023:1027]", "map(&@, ys)[::257]"];
            ops.push(Op::CompileSearch { text: texts[(t + r.below(5)) % 5].to_string(), d: 0 });
        }
        if manytexts {
            if t == 0 {
                for i in 0..1040 {
                    ops.push(Op::CompileSearch { text: format!("a[{}] || s", i), d: 0 });
                }
                for i in 0..12 {
                    ops.push(Op::CompileSearch { text: format!("xs[{}] || a", 2000 + i), d: 0 });
                }
            } else {
                ops.push(Op::WaitFor { t: 0, n: 1040 });
                for i in 0..12 {
                    ops.push(Op::CompileSearch { text: format!("a[{}] || s", 1030 - i), d: 0 });
                }
            }
        }
        if longrun {
            // 4 x 1030 = 4120 searches: just past a 4096 period
            for _ in 0..1030 {
                ops.push(Op::Search { e: 0, d: 0, form: 0 });
            }
        }
        if shared {
            let _ = t;
            for e in 0..pre.len() {
                ops.push(Op::Search { e, d: r.below(docs.len()), form: r.below(3) as u8 });
            }
            // 4 threads x (1 + 10) searches of each of the first two expressions: 44 each
            for k in 0..20 {
                ops.push(Op::Search { e: k % 2, d: r.below(docs.len()), form: 0 });
            }
        }
        if deep {
            let mut nest = String::from("a[0]");
            for _ in 0..22 {
                nest = format!("{}({})", r.pick(&["abs", "not_null", "to_array", "abs", "abs"]), nest);
                if nest.starts_with("to_array") {
                    nest = format!("{}[0]", nest);
                }
            }
            for k in 0..3 {
                let _ = t;
                // every thread starts inside the nested sort_by at the same time
                let text = if k % 2 == 0 {
                    "sort_by(groups, &sort_by(items, &v)[0].v)[*].items[0].v".to_string()
                } else {
                    nest.clone()
                };
                ops.push(Op::CompileSearch { text, d: 0 });
            }
        }
        if hot {
            for k in 0..4 {
                let f = if (k + t) % 2 == 0 { "min" } else { "max" };
                ops.push(Op::CompileSearch { text: format!("map(&{}(@), rows) | [0]", f), d: 0 });
            }
        }
        if pool {
            // many cheap compiles of the same few texts (the long-literal one now and then)
            for _ in 0..(20 + r.below(6)) {
                let d = r.below(docs.len());
                let text = if r.chance(1, 7) { pool_texts[2].clone() } else { pool_texts[r.below(2)].clone() };
                ops.push(Op::CompileSearch { text, d });
            }
        }
        if !(race || late || pool || deep || hot || shared || crowd || bigsort || manytexts || longrun || bigproj) {
            // general class: a sliding window over KINDS, shifted by one per thread, so that
            // neighbouring threads evaluate the same kinds (compiled afresh or pre-compiled)
            let start = r.below(KINDS.len());
            for k in 0..5 {
                let d = r.below(docs.len());
                ops.push(Op::CompileSearch { text: KINDS[(start + t + k) % KINDS.len()].to_string(), d });
            }
        }
        for _ in ops.len()..(if deep || hot || shared || crowd || bigsort || manytexts || longrun || bigproj { 0 } else { nops.max(ops.len() + 1) }) {
            let d = r.below(docs.len());
            let e = r.below(pre.len());
            ops.push(match r.below(10) {
                0..=2 => Op::Search { e, d, form: r.below(3) as u8 },
                3..=5 => Op::CompileSearch { text: gen_text(&mut r, &base, false), d },
                6 => Op::CustomSearch { text: gen_text(&mut r, &base, true), d },
                7 => Op::CloneSearch { e, d },
                _ => Op::ToString { e, d },
            });
        }
        threads.push(ops);
    }
    Scenario { docs, pre, touch_default_first, threads, main_runs, gens }
}

/// Kept in a static (not leaked) so that Miri's leak check stays meaningful.
static CUSTOM: std::sync::OnceLock<Runtime> = std::sync::OnceLock::new();

fn custom_runtime() -> &'static Runtime {
    CUSTOM.get_or_init(make_custom_runtime)
}

fn make_custom_runtime() -> Runtime {
    let mut rt = Runtime::new();
    rt.register_builtin_functions();
    rt.register_function(
        "cid",
        Box::new(|args: &[Rcvar], _: &mut Context<'_>| -> Result<Rcvar, JmespathError> {
            Ok(args.get(0).cloned().unwrap_or_else(|| Rcvar::new(Variable::Null)))
        }),
    );
    rt
}

fn deep_copy(v: &Rcvar) -> Rcvar {
    Rcvar::new(match &**v {
        Variable::Array(a) => Variable::Array(a.iter().map(deep_copy).collect()),
        Variable::Object(m) => Variable::Object(m.iter().map(|(k, v)| (k.clone(), deep_copy(v))).collect()),
        o => o.clone(),
    })
}

type Gen = Vec<Option<Expression<'static>>>;

struct Shared {
    docs: Vec<Rcvar>,
    exprs: Vec<Option<Expression<'static>>>,
    custom: &'static Runtime,
    /// per-thread count of completed operations (threads mode only)
    progress: Option<Vec<AtomicUsize>>,
    /// the current generation of shared expressions (scenarios with `Phase` / `SearchGen`):
    /// every thread keeps its own `Arc` to it during a phase and lets go of it at the
    /// rendezvous, so that the coordinator's `take()` there really drops the expressions
    gen: std::sync::Mutex<Option<std::sync::Arc<Gen>>>,
    /// texts of generation 0 (= `pre`), 1, 2, ...
    gen_texts: Vec<Vec<String>>,
    /// number of rendezvous every thread takes part in
    nphases: usize,
    barrier: std::sync::Barrier,
    /// hand-off slots (`GiveVal` / `TakeVal` / `GiveExpr` / `TakeExpr`): one giver and one
    /// taker each; the taker blocks on the condition variable in `threads` mode
    slots: Vec<(std::sync::Mutex<Option<Item>>, std::sync::Condvar)>,
}

enum Item {
    Val(Rcvar),
    Expr(Option<Expression<'static>>),
}

fn compile_on(sh: &Shared, text: &str, custom: bool) -> Option<Expression<'static>> {
    if custom {
        sh.custom.compile(text).ok()
    } else {
        jmespath::compile(text).ok()
    }
}

fn produce_val(sh: &Shared, e: usize, d: usize) -> Rcvar {
    match &sh.exprs[e % sh.exprs.len()] {
        Some(ex) => ex.search(&sh.docs[d % sh.docs.len()]).unwrap_or_else(|_| Rcvar::new(Variable::Null)),
        None => Rcvar::new(Variable::Null),
    }
}

fn give(sh: &Shared, slot: usize, it: Item) {
    let (m, cv) = &sh.slots[slot % sh.slots.len()];
    *m.lock().unwrap() = Some(it);
    cv.notify_all();
}

/// In `threads` mode (progress counters present) the taker waits for the giver; in the
/// sequential modes an empty slot means the giver has not run yet, and `None` makes the
/// taker produce the item itself -- same item, so the rendering is the same in every mode.
fn take(sh: &Shared, slot: usize) -> Option<Item> {
    let (m, cv) = &sh.slots[slot % sh.slots.len()];
    let mut g = m.lock().unwrap();
    if sh.progress.is_some() {
        while g.is_none() {
            g = cv.wait(g).unwrap();
        }
    }
    g.take()
}

/// What one thread carries from operation to operation.
#[derive(Default)]
struct Tctx {
    cur: Option<std::sync::Arc<Gen>>,
    phase: usize,
}

fn compile_gen(sh: &Shared, texts: &[String]) -> Gen {
    texts.iter().map(|t| sh.custom.compile(t).ok()).collect()
}

/// Coordinator only, all other threads parked (or not yet told to go on): drop the current
/// generation -- this is the last reference -- and compile the next one, on this thread.
fn next_generation(sh: &Shared, phase: usize) {
    let old = sh.gen.lock().unwrap().take();
    drop(old);
    let next = std::sync::Arc::new(compile_gen(sh, &sh.gen_texts[(phase + 1).min(sh.gen_texts.len() - 1)]));
    *sh.gen.lock().unwrap() = Some(next);
}

fn search_gen(sh: &Shared, ctx: &mut Tctx, e: usize, d: usize) -> String {
    if ctx.cur.is_none() {
        ctx.cur = sh.gen.lock().unwrap().clone();
    }
    match ctx.cur.as_ref() {
        Some(g) if !g.is_empty() => match &g[e % g.len()] {
            Some(ex) => render(ex.search(&sh.docs[d % sh.docs.len()])),
            None => "skip".into(),
        },
        _ => "skip".into(),
    }
}

/// One operation of a thread in `threads` mode (rendezvous through the barrier).
fn run_op_ctx(sh: &Shared, ctx: &mut Tctx, coordinator: bool, op: &Op) -> String {
    match op {
        Op::SearchGen { e, d } => search_gen(sh, ctx, *e, *d),
        Op::Phase => {
            if ctx.phase >= sh.nphases {
                return "skipped".into();
            }
            ctx.cur = None;
            sh.barrier.wait();
            if coordinator {
                next_generation(sh, ctx.phase);
            }
            sh.barrier.wait();
            ctx.phase += 1;
            "phase".into()
        }
        _ => run_op(sh, op),
    }
}

/// The operations of one thread, cut at the rendezvous points it takes part in.
fn segments(ops: &[Op], nphases: usize) -> Vec<Vec<(usize, &Op)>> {
    let mut segs = vec![vec![]];
    for (i, op) in ops.iter().enumerate() {
        if matches!(op, Op::Phase) && segs.len() <= nphases {
            segs.push(vec![]);
        }
        segs.last_mut().unwrap().push((i, op));
    }
    while segs.len() <= nphases {
        segs.push(vec![]);
    }
    segs
}

/// One segment of a thread where the driver does the rendezvous itself (`seq`, `serial`).
fn run_segment(sh: &Shared, ctx: &mut Tctx, seg: &[(usize, &Op)]) -> Vec<(usize, String)> {
    let out = seg
        .iter()
        .map(|(i, op)| {
            (*i, match op {
                Op::SearchGen { e, d } => search_gen(sh, ctx, *e, *d),
                Op::Phase => (if ctx.phase < sh.nphases { ctx.phase += 1; "phase" } else { "skipped" }).to_string(),
                _ => run_op(sh, op),
            })
        })
        .collect();
    ctx.cur = None;
    out
}

fn render(r: Result<Rcvar, JmespathError>) -> String {
    match r {
        Ok(v) => format!("Ok({:?})", v),
        Err(e) => format!("Err({:?})", e),
    }
}

fn run_op(sh: &Shared, op: &Op) -> String {
    match op {
        Op::Phase | Op::SearchGen { .. } => "skipped".into(),
        Op::GiveVal { slot, e, d } => {
            let v = produce_val(sh, *e, *d);
            let r = format!("Gave({:?})", v);
            give(sh, *slot, Item::Val(v));
            r
        }
        Op::TakeVal { slot, e, pe, pd } => {
            let v = match take(sh, *slot) {
                Some(Item::Val(v)) => v,
                _ => produce_val(sh, *pe, *pd),
            };
            let r = match &sh.exprs[*e % sh.exprs.len()] {
                Some(ex) => format!("Took({}; {})", render(ex.search(&v)), v),
                None => format!("Took({})", v),
            };
            drop(v);
            r
        }
        Op::GiveExpr { slot, text, custom } => {
            let ex = compile_on(sh, text, *custom);
            let r = format!("GaveExpr({})", ex.is_some());
            give(sh, *slot, Item::Expr(ex));
            r
        }
        Op::TakeExpr { slot, d, text, custom } => {
            let ex = match take(sh, *slot) {
                Some(Item::Expr(ex)) => ex,
                _ => compile_on(sh, text, *custom),
            };
            match ex {
                None => "TookExpr(none)".into(),
                Some(ex) => {
                    let doc = &sh.docs[*d % sh.docs.len()];
                    let a = render(ex.search(doc));
                    let c = ex.clone();
                    drop(ex);
                    let b = render(c.search(doc.clone()));
                    format!("TookExpr({} / {})", a, b)
                }
            }
        }
        Op::WaitFor { t, n } => {
            if let Some(p) = sh.progress.as_ref() {
                // a wait on an impossible target would never end: ignore it
                let mut spins = 0u64;
                while p.get(*t).map_or(usize::MAX, |c| c.load(Relaxed)) < *n {
                    std::thread::yield_now();
                    spins += 1;
                    if spins > 50_000_000 {
                        break;
                    }
                }
            }
            "waited".into()
        }
        Op::Search { e, d, form } => match &sh.exprs[*e % sh.exprs.len()] {
            None => "skip".into(),
            Some(ex) => {
                let doc = &sh.docs[*d % sh.docs.len()];
                render(match form {
                    0 => ex.search(doc),
                    1 => ex.search(doc.clone()),
                    _ => ex.search(deep_copy(doc)),
                })
            }
        },
        Op::CompileSearch { text, d } => match jmespath::compile(text) {
            Ok(ex) => render(ex.search(&sh.docs[*d % sh.docs.len()])),
            Err(e) => format!("CompileErr({:?})", e),
        },
        Op::CustomSearch { text, d } => match sh.custom.compile(text) {
            Ok(ex) => render(ex.search(sh.docs[*d % sh.docs.len()].clone())),
            Err(e) => format!("CompileErr({:?})", e),
        },
        Op::CloneSearch { e, d } => match &sh.exprs[*e % sh.exprs.len()] {
            None => "skip".into(),
            Some(ex) => {
                let c = ex.clone();
                let r = render(c.search(&sh.docs[*d % sh.docs.len()]));
                drop(c);
                r
            }
        },
        Op::ToString { e, d } => match &sh.exprs[*e % sh.exprs.len()] {
            None => "skip".into(),
            Some(ex) => match ex.search(sh.docs[*d % sh.docs.len()].clone()) {
                Ok(v) => format!("Str({})", v),
                Err(e) => format!("Err({:?})", e),
            },
        },
    }
}

fn build_shared(s: &Scenario) -> Shared {
    let custom = custom_runtime();
    if s.touch_default_first {
        let _ = jmespath::compile("@");
    }
    let docs = s
        .docs
        .iter()
        .map(|t| Rcvar::new(Variable::from_json(t).unwrap_or(Variable::Null)))
        .collect();
    let exprs = s
        .pre
        .iter()
        .map(|(c, t)| {
            if *c || !s.touch_default_first {
                custom.compile(t).ok()
            } else {
                jmespath::compile(t).ok()
            }
        })
        .collect();
    let uses_gens = s.threads.iter().any(|t| t.iter().any(|o| matches!(o, Op::Phase | Op::SearchGen { .. })));
    let mut gen_texts = vec![s.pre.iter().map(|(_, t)| t.clone()).collect::<Vec<_>>()];
    gen_texts.extend(s.gens.iter().cloned());
    let nphases = s
        .threads
        .iter()
        .map(|t| t.iter().filter(|o| matches!(o, Op::Phase)).count())
        .min()
        .unwrap_or(0)
        .min(s.gens.len());
    let nslots = s
        .threads
        .iter()
        .flatten()
        .map(|o| match o {
            Op::GiveVal { slot, .. } | Op::TakeVal { slot, .. } | Op::GiveExpr { slot, .. } | Op::TakeExpr { slot, .. } => slot + 1,
            _ => 0,
        })
        .max()
        .unwrap_or(0)
        .max(1);
    let mut sh = Shared {
        docs,
        exprs,
        custom,
        progress: None,
        gen: std::sync::Mutex::new(None),
        gen_texts,
        nphases,
        barrier: std::sync::Barrier::new(s.threads.len().max(1)),
        slots: (0..nslots).map(|_| (std::sync::Mutex::new(None), std::sync::Condvar::new())).collect(),
    };
    if uses_gens {
        let g0 = compile_gen(&sh, &sh.gen_texts[0]);
        sh.gen = std::sync::Mutex::new(Some(std::sync::Arc::new(g0)));
    }
    sh
}

fn arg<'a>(args: &'a [String], name: &str) -> Option<&'a str> {
    args.iter().position(|a| a == name).and_then(|i| args.get(i + 1)).map(|s| s.as_str())
}

pub fn main() {
    crate::obligations::all();
    let args: Vec<String> = std::env::args().collect();
    let seed: u64 = arg(&args, "--seed").and_then(|s| s.parse().ok()).unwrap_or(simcore::DEFAULT_SEED);
    let index: u64 = arg(&args, "--index").and_then(|s| s.parse().ok()).unwrap_or(0);
    let scen = match arg(&args, "--scenario") {
        Some(t) => from_json(&serde_json::from_str(t).expect("scenario JSON")),
        None => generate(mix(seed, index), arg(&args, "--class").unwrap_or(if args.iter().any(|a| a == "--race") { "race" } else { "general" })),
    };
    if args.iter().any(|a| a == "--print") {
        println!("{}", serde_json::to_string(&to_json(&scen)).unwrap());
        return;
    }
    let mode = arg(&args, "--mode").unwrap_or("seq");
    if let Some(n) = arg(&args, "--batch").and_then(|x| x.parse::<u64>().ok()) {
        // native pre-pass over many scenarios: seq vs serial-threads, one line each
        for i in index..index + n {
            let sc = generate(mix(seed, i), ["race", "general", "pool", "late", "shared", "deep"][(i % 6) as usize]);
            let a = exec(&sc, "seq", false).0;
            let b = exec(&sc, "serial", false).0;
            println!("B {} {:016x} {:016x}", i, a, b);
            // role classes (which thread compiles, searches, drops): numbered from 1 000 000 / 2 000 000 / 3 000 000
            for (base, cls, when) in [(1_000_000u64, "rounds", 3u64), (2_000_000u64, "owner", 5u64), (3_000_000u64, "handoff", 7u64)] {
                if i % 8 == when {
                    let sc = generate(mix(seed, i), cls);
                    let a = exec(&sc, "seq", false).0;
                    let b = exec(&sc, "serial", false).0;
                    println!("B {} {:016x} {:016x}", base + i, a, b);
                }
            }
        }
        return;
    }
    let (hash, order_hash, contended) = exec(&scen, mode, args.iter().any(|a| a == "--verbose"));
    // one write for the whole line (many Miri seeds share the pipe), closed by ';' so that a
    // torn line is never mistaken for a result
    let line = format!("OUT {:016x} order={:016x} overlapping_pairs={} threads={} ops={};\n", hash, order_hash, contended,
        scen.threads.len(), scen.threads.iter().map(|t| t.len()).sum::<usize>());
    use std::io::Write;
    let _ = std::io::stdout().write_all(line.as_bytes());
    let _ = std::io::stdout().flush();
}

fn exec(scen: &Scenario, mode: &str, verbose: bool) -> (u64, u64, usize) {
    let mut sh = build_shared(scen);
    let nthreads = scen.threads.len();
    if mode != "seq" && mode != "serial" {
        sh.progress = Some((0..nthreads).map(|_| AtomicUsize::new(0)).collect());
    }
    let mut results: Vec<Vec<String>> = vec![vec![]; nthreads];
    let mut order_hash = 0u64;
    let mut contended = 0usize;
    let roles = scen.main_runs || sh.nphases > 0 || scen.threads.iter().any(|t| t.iter().any(|o| matches!(o, Op::SearchGen { .. })));
    if mode == "seq" && roles {
        // one thread, phase by phase
        let segs: Vec<_> = scen.threads.iter().map(|ops| segments(ops, sh.nphases)).collect();
        let mut ctxs: Vec<Tctx> = (0..nthreads).map(|_| Tctx::default()).collect();
        for ph in 0..=sh.nphases {
            for t in 0..nthreads {
                for (_, r) in run_segment(&sh, &mut ctxs[t], &segs[t][ph]) {
                    results[t].push(r);
                }
            }
            if ph < sh.nphases {
                next_generation(&sh, ph);
            }
        }
    } else if mode == "serial" && roles {
        // every thread of the scenario is a real thread that lives for the whole scenario;
        // the driver (the main thread, which is also thread 0 when `main_runs`) tells them
        // one at a time to run their next segment, and changes generation in between:
        // deterministic, no scheduler involved
        use std::sync::mpsc;
        let segs: Vec<_> = scen.threads.iter().map(|ops| segments(ops, sh.nphases)).collect();
        let sh_ref = &sh;
        let segs_ref = &segs;
        let first_spawned = if scen.main_runs { 1 } else { 0 };
        let collected: Vec<Vec<String>> = std::thread::scope(|sc| {
            let mut chans = vec![];
            for t in first_spawned..nthreads {
                let (cmd_tx, cmd_rx) = mpsc::channel::<usize>();
                let (res_tx, res_rx) = mpsc::channel::<Vec<(usize, String)>>();
                sc.spawn(move || {
                    let mut ctx = Tctx::default();
                    while let Ok(ph) = cmd_rx.recv() {
                        let out = run_segment(sh_ref, &mut ctx, &segs_ref[t][ph]);
                        if res_tx.send(out).is_err() {
                            break;
                        }
                    }
                });
                chans.push((t, cmd_tx, res_rx));
            }
            let mut res: Vec<Vec<String>> = vec![vec![]; nthreads];
            let mut ctx0 = Tctx::default();
            for ph in 0..=sh_ref.nphases {
                if scen.main_runs && nthreads > 0 {
                    for (_, r) in run_segment(sh_ref, &mut ctx0, &segs_ref[0][ph]) {
                        res[0].push(r);
                    }
                }
                for (t, cmd_tx, res_rx) in &chans {
                    cmd_tx.send(ph).expect("worker gone");
                    for (_, r) in res_rx.recv().expect("thread panicked") {
                        res[*t].push(r);
                    }
                }
                if ph < sh_ref.nphases {
                    next_generation(sh_ref, ph);
                }
            }
            drop(chans);
            res
        });
        results = collected;
    } else if mode == "seq" {
        for (t, ops) in scen.threads.iter().enumerate() {
            for op in ops {
                results[t].push(run_op(&sh, op));
            }
        }
    } else if mode == "serial" {
        // real, distinct threads, but one after the other: deterministic without any
        // scheduler, and enough to expose state tied to thread identity (thread_local!)
        let sh_ref = &sh;
        for (t, ops) in scen.threads.iter().enumerate() {
            results[t] = std::thread::scope(|sc| {
                sc.spawn(move || ops.iter().map(|op| run_op(sh_ref, op)).collect::<Vec<_>>())
                    .join()
                    .expect("thread panicked")
            });
        }
    } else {
        // harness bookkeeping uses Relaxed atomics only: it adds no happens-before
        // edge that could hide a race in the library
        let stamp = AtomicUsize::new(0);
        let started = AtomicUsize::new(0);
        let sh_ref = &sh;
        let stamp_ref = &stamp;
        let started_ref = &started;
        let worker = move |tid: usize, ops: &Vec<Op>| {
            let mut out = vec![];
            let mut stamps = vec![];
            let mut ctx = Tctx::default();
            let before = started_ref.fetch_add(1, Relaxed);
            for op in ops {
                // a wait may only look at a lower-numbered thread (no cycles)
                if let Op::WaitFor { t, .. } = op {
                    if *t >= tid {
                        out.push("waited".into());
                        continue;
                    }
                }
                out.push(run_op_ctx(sh_ref, &mut ctx, tid == 0, op));
                stamps.push(stamp_ref.fetch_add(1, Relaxed));
                if let Some(p) = sh_ref.progress.as_ref() {
                    p[tid].fetch_add(1, Relaxed);
                }
            }
            (out, stamps, before)
        };
        let main_runs = scen.main_runs && nthreads > 0;
        let outs: Vec<(Vec<String>, Vec<usize>, usize)> = std::thread::scope(|sc| {
            let hs: Vec<_> = scen
                .threads
                .iter()
                .enumerate()
                .skip(if main_runs { 1 } else { 0 })
                .map(|(tid, ops)| sc.spawn(move || worker(tid, ops)))
                .collect();
            // thread 0's operations on the main thread itself, next to the spawned ones
            let mut all = vec![];
            if main_runs {
                all.push(worker(0, &scen.threads[0]));
            }
            all.extend(hs.into_iter().map(|h| h.join().expect("thread panicked")));
            all
        });
        let mut h = Hasher64::new();
        let mut all: Vec<(usize, usize, usize)> = vec![];
        for (t, (out, stamps, _)) in outs.iter().enumerate() {
            results[t] = out.clone();
            for (i, s) in stamps.iter().enumerate() {
                all.push((*s, t, i));
            }
        }
        all.sort();
        for (_, t, i) in &all {
            h.u64(*t as u64).u64(*i as u64);
        }
        order_hash = h.finish();
        // threads whose first stamp is smaller than another thread's last stamp overlapped
        for (a, (_, sa, _)) in outs.iter().enumerate() {
            for (b, (_, sb, _)) in outs.iter().enumerate() {
                if a < b && !sa.is_empty() && !sb.is_empty() && sa[0] < *sb.last().unwrap() && sb[0] < *sa.last().unwrap() {
                    contended += 1;
                }
            }
        }
    }
    let mut h = Hasher64::new();
    for (t, rs) in results.iter().enumerate() {
        for (i, r) in rs.iter().enumerate() {
            h.u64(t as u64).u64(i as u64).str(r);
        }
    }
    if verbose {
        for (t, rs) in results.iter().enumerate() {
            for (i, r) in rs.iter().enumerate() {
                println!("RES t{} op{} {}", t, i, r.chars().take(300).collect::<String>());
            }
        }
    }
    (h.finish(), order_hash, contended)
}
