//! thrsim — thread scenarios for C16 (sync feature: shareable across threads).
//!
//! The same binary is run (a) natively in `seq` mode to obtain the sequential
//! result line and (b) under Miri in `threads` mode, where Miri's seeded
//! scheduler decides every interleaving and its data-race detector watches
//! the real `Arc`, `Once`/`lazy_static` and allocator traffic.
//!
//!   thrsim --seed S --index I --mode seq|threads
//!   thrsim --scenario '<json>' --mode seq|threads
//!   thrsim --seed S --index I --print        (prints the scenario as JSON)
//!
//! Needs `--features sync`; without it the binary only says so.

#[cfg(feature = "sync")]
mod obligations;
#[cfg(feature = "sync")]
mod scen;

fn main() {
    #[cfg(feature = "sync")]
    scen::main();
    #[cfg(not(feature = "sync"))]
    {
        eprintln!("thrsim: build with --features sync");
        std::process::exit(2);
    }
}
