#[cfg(feature = "sync")]
#[path = "obligations.rs"]
mod obligations;

fn main() {
    #[cfg(feature = "sync")]
    obligations::all();
    println!("obligations compiled");
}
