//! clisim — the real `jp` process under the sysshim syscall seam, compared
//! with an oracle computed in-process from the library (C18).
//!
//!   clisim run  --seed S --start A --count N --jp PATH --shim PATH --work DIR --out FILE [--samples K]
//!   clisim exec --file CASE.json --jp PATH --shim PATH --work DIR [--verbose]
//!   clisim gen  --seed S --index I
//!   clisim grid                      (prints the fixed grid of cases as JSON lines)

use jmespath::Variable;
use serde_json::{json, Value};
use simcore::gen::ExprGen;
use simcore::{fnv, mix, ExtraFns, Hasher64, Rng, J};
use std::collections::{BTreeMap, BTreeSet};
use std::io::{Read, Write};
use std::process::{Command, Stdio};
use std::rc::Rc;
use std::time::{Duration, Instant};

// ------------------------------------------------------------------ case

#[derive(Clone, Debug, PartialEq)]
struct Case {
    expr: Vec<u8>,
    /// "argv" | "file"
    expr_via: String,
    input: Vec<u8>,
    /// "stdin_file" | "stdin_pipe" | "file"
    input_via: String,
    unquoted: bool,
    ast: bool,
    /// "" | "both_expr_sources" | "no_expr"
    illegal: String,
    /// real (not injected) absence: "expr_missing" | "expr_is_dir" | "input_missing" | "input_is_dir"
    real_fs: Vec<String>,
    /// shim directives
    plan: Vec<String>,
    /// spelling of the flags: 0 short separate (-f X), 1 long separate (--filename X),
    /// 2 long attached (--filename=X), 3 short attached (-fX)
    spelling: u8,
    /// put the flags after the positional expression
    flags_last: bool,
    /// environment variables given to jp (the rest of the environment is empty)
    env: Vec<(String, String)>,
    /// labels for coverage cells (do not influence execution)
    expr_class: String,
    input_class: String,
}

fn hex(b: &[u8]) -> String {
    b.iter().map(|x| format!("{:02x}", x)).collect()
}
fn unhex(s: &str) -> Vec<u8> {
    (0..s.len() / 2)
        .filter_map(|i| u8::from_str_radix(&s[2 * i..2 * i + 2], 16).ok())
        .collect()
}

fn case_to_json(c: &Case) -> Value {
    json!({
        "expr_hex": hex(&c.expr), "expr_text": String::from_utf8_lossy(&c.expr), "expr_via": c.expr_via,
        "input_hex": hex(&c.input), "input_text": String::from_utf8_lossy(&c.input), "input_via": c.input_via,
        "unquoted": c.unquoted, "ast": c.ast, "illegal": c.illegal, "real_fs": c.real_fs, "plan": c.plan,
        "spelling": c.spelling, "flags_last": c.flags_last,
        "env": c.env.iter().map(|(k, v)| json!([k, v])).collect::<Vec<_>>(),
        "expr_class": c.expr_class, "input_class": c.input_class,
    })
}

fn case_from_json(v: &Value) -> Result<Case, String> {
    let s = |k: &str| v.get(k).and_then(|x| x.as_str()).unwrap_or("").to_string();
    let list = |k: &str| -> Vec<String> {
        v.get(k)
            .and_then(|x| x.as_array())
            .map(|a| a.iter().filter_map(|x| x.as_str().map(|y| y.to_string())).collect())
            .unwrap_or_default()
    };
    // *_bytes (list of ints) wins over *_hex: the minimiser edits byte lists
    let bytes = |k: &str| -> Vec<u8> {
        if let Some(a) = v.get(&format!("{}_bytes", k)).and_then(|x| x.as_array()) {
            a.iter().filter_map(|x| x.as_u64()).map(|x| x as u8).collect()
        } else {
            unhex(&s(&format!("{}_hex", k)))
        }
    };
    Ok(Case {
        expr: bytes("expr"),
        expr_via: if s("expr_via").is_empty() { "argv".into() } else { s("expr_via") },
        input: bytes("input"),
        input_via: if s("input_via").is_empty() { "stdin_file".into() } else { s("input_via") },
        unquoted: v.get("unquoted").and_then(|x| x.as_bool()).unwrap_or(false),
        ast: v.get("ast").and_then(|x| x.as_bool()).unwrap_or(false),
        illegal: s("illegal"),
        real_fs: list("real_fs"),
        plan: list("plan"),
        spelling: v.get("spelling").and_then(|x| x.as_u64()).unwrap_or(0) as u8,
        flags_last: v.get("flags_last").and_then(|x| x.as_bool()).unwrap_or(false),
        env: v
            .get("env")
            .and_then(|x| x.as_array())
            .map(|a| {
                a.iter()
                    .filter_map(|p| {
                        let p = p.as_array()?;
                        Some((p.get(0)?.as_str()?.to_string(), p.get(1)?.as_str()?.to_string()))
                    })
                    .collect()
            })
            .unwrap_or_default(),
        expr_class: s("expr_class"),
        input_class: s("input_class"),
    })
}

// ------------------------------------------------------------------ plan interpretation (oracle side)

#[derive(Default, Debug)]
struct TPlan {
    openerr: Option<i32>,
    readerr_after: Option<usize>,
    eof_after: Option<usize>,
    eintr: bool,
    chunk: bool,
}

fn plan_for(plan: &[String], target: &str) -> TPlan {
    let mut t = TPlan::default();
    for d in plan {
        let p: Vec<&str> = d.split(':').collect();
        if p.len() < 2 || p[1] != target {
            continue;
        }
        match p[0] {
            "openerr" => t.openerr = p.get(2).and_then(|x| x.parse().ok()),
            "readerr" => t.readerr_after = p.get(2).and_then(|x| x.parse().ok()),
            "eof" => t.eof_after = p.get(2).and_then(|x| x.parse().ok()),
            "eintr" => t.eintr = true,
            "chunk" => t.chunk = true,
            _ => {}
        }
    }
    t
}

/// What a reader that reads to the end obtains from `bytes` under the plan:
/// Ok(delivered bytes) or Err(()) for "the source is unreadable".
fn deliver(bytes: &[u8], t: &TPlan, is_file: bool) -> Result<Vec<u8>, ()> {
    if is_file && t.openerr.is_some() {
        return Err(());
    }
    // Mirrors the shim: before each read it checks, in this order, "error once e
    // bytes were delivered", "EOF once f bytes were delivered"; the data itself
    // ends at L.  A reader that reads to the end stops at min(e, f, L); it fails
    // iff the error point is reached first (ties go to the error).
    let l = bytes.len();
    let e = t.readerr_after.unwrap_or(usize::MAX);
    let f = t.eof_after.unwrap_or(usize::MAX);
    if e <= f && e <= l {
        Err(())
    } else {
        Ok(bytes[..f.min(l)].to_vec())
    }
}

#[derive(Debug, Clone, PartialEq)]
enum Expect {
    Failure(String),
    Success { stdout: Vec<u8>, no_input_access: bool },
}

/// The library is called in-process; should it panic, the only thing jp can
/// legally do is fail with a diagnosis (it "never panics"), so that is the
/// expectation — and jp's own panic is then reported by `judge`.
fn oracle(c: &Case) -> Expect {
    match std::panic::catch_unwind(|| oracle_inner(c)) {
        Ok(e) => e,
        Err(_) => Expect::Failure("the library itself panics on this input".into()),
    }
}

fn oracle_inner(c: &Case) -> Expect {
    if !c.illegal.is_empty() {
        return Expect::Failure(format!("illegal flag combination: {}", c.illegal));
    }
    // expression source
    let expr_bytes = if c.expr_via == "file" {
        if c.real_fs.iter().any(|x| x == "expr_missing" || x == "expr_is_dir") {
            return Expect::Failure("expression file unreadable (real)".into());
        }
        match deliver(&c.expr, &plan_for(&c.plan, "expr.txt"), true) {
            Ok(b) => b,
            Err(()) => return Expect::Failure("expression file unreadable (injected)".into()),
        }
    } else {
        c.expr.clone()
    };
    let text = match String::from_utf8(expr_bytes) {
        Ok(t) => t,
        Err(_) => return Expect::Failure("expression is not UTF-8".into()),
    };
    let expr = match jmespath::compile(&text) {
        Ok(e) => e,
        Err(_) => return Expect::Failure("expression does not compile".into()),
    };
    if c.ast {
        return Expect::Success {
            stdout: format!("{:#?}\n", expr.as_ast()).into_bytes(),
            no_input_access: true,
        };
    }
    // input
    let delivered = match c.input_via.as_str() {
        // `-f ''`: the empty file name never names a readable file (stdin holds a decoy)
        "file_empty_name" => return Expect::Failure("input file name is empty".into()),
        // `-f /dev/stdin`: a readable non-regular file; same bytes as the stdin case
        "file_devstdin" => Ok(c.input.clone()),
        // `-f <fifo>`: a named pipe fed by a writer; same bytes
        "file_fifo" => Ok(c.input.clone()),
        // `-f -`: a file literally named "-" in the working directory (stdin holds a decoy)
        "file_dash" => {
            if c.real_fs.iter().any(|x| x == "input_missing") {
                return Expect::Failure("input file '-' does not exist (real)".into());
            }
            Ok(c.input.clone())
        }
        "file" => {
            if c.real_fs.iter().any(|x| x == "input_missing" || x == "input_is_dir") {
                return Expect::Failure("input file unreadable (real)".into());
            }
            deliver(&c.input, &plan_for(&c.plan, "in.json"), true)
        }
        _ => deliver(&c.input, &plan_for(&c.plan, "stdin"), false),
    };
    let delivered = match delivered {
        Ok(b) => b,
        Err(()) => return Expect::Failure("input unreadable (injected)".into()),
    };
    let intext = match String::from_utf8(delivered) {
        Ok(t) => t,
        Err(_) => return Expect::Failure("input is not UTF-8".into()),
    };
    let var = match Variable::from_json(&intext) {
        Ok(v) => v,
        Err(_) => return Expect::Failure("input is not JSON".into()),
    };
    let data = Rc::new(var);
    let result = match expr.search(&data) {
        Ok(r) => r,
        Err(_) => return Expect::Failure("search fails".into()),
    };
    let mut out = if c.unquoted && result.is_string() {
        result.as_string().unwrap().clone().into_bytes()
    } else {
        match serde_json::to_string_pretty(&result) {
            Ok(s) => s.into_bytes(),
            Err(_) => return Expect::Failure("result cannot be serialised".into()),
        }
    };
    out.push(b'\n');
    Expect::Success {
        stdout: out,
        no_input_access: false,
    }
}

// ------------------------------------------------------------------ running jp

struct Obs {
    status: Option<i32>,
    signal: bool,
    timeout: bool,
    stdout: Vec<u8>,
    stderr: Vec<u8>,
    trace: String,
    argv: Vec<String>,
}

struct Env<'a> {
    jp: &'a str,
    shim: &'a str,
    work: &'a str,
}

fn run_case(env: &Env, c: &Case, tag: &str) -> Result<Obs, String> {
    let dir = format!("{}/c_{}", env.work, tag);
    let _ = std::fs::remove_dir_all(&dir);
    std::fs::create_dir_all(&dir).map_err(|e| format!("mkdir {}: {}", dir, e))?;
    let mut flags: Vec<String> = vec![];
    let long = c.spelling == 1 || c.spelling == 2;
    let attached = c.spelling == 2 || c.spelling == 3;
    let opt = |flags: &mut Vec<String>, short: &str, long_name: &str, val: &str| {
        match (long, attached) {
            (false, false) => {
                flags.push(short.to_string());
                flags.push(val.to_string());
            }
            (true, false) => {
                flags.push(long_name.to_string());
                flags.push(val.to_string());
            }
            (true, true) => flags.push(format!("{}={}", long_name, val)),
            (false, true) => flags.push(format!("{}{}", short, val)),
        }
    };
    if c.unquoted {
        flags.push(if long { "--unquoted".into() } else { "-u".into() });
    }
    if c.ast {
        flags.push("--ast".into());
    }
    let expr_path = format!("{}/expr.txt", dir);
    let in_path = format!("{}/in.json", dir);
    let with_file_expr = c.expr_via == "file" || c.illegal == "both_expr_sources";
    if with_file_expr {
        if c.real_fs.iter().any(|x| x == "expr_is_dir") {
            std::fs::create_dir_all(&expr_path).map_err(|e| e.to_string())?;
        } else if !c.real_fs.iter().any(|x| x == "expr_missing") {
            std::fs::write(&expr_path, &c.expr).map_err(|e| e.to_string())?;
        }
        opt(&mut flags, "-e", "--expr-file", &expr_path);
    }
    let fifo_path = format!("{}/in.fifo", dir);
    if c.input_via == "file_empty_name" {
        opt(&mut flags, "-f", "--filename", "");
    }
    if c.input_via == "file_devstdin" {
        opt(&mut flags, "-f", "--filename", "/dev/stdin");
    }
    if c.input_via == "file_fifo" {
        let st = Command::new("mkfifo").arg(&fifo_path).status().map_err(|e| format!("mkfifo: {}", e))?;
        if !st.success() {
            return Err("mkfifo failed".into());
        }
        opt(&mut flags, "-f", "--filename", &fifo_path);
    }
    if c.input_via == "file_dash" {
        if !c.real_fs.iter().any(|x| x == "input_missing") {
            std::fs::write(format!("{}/-", dir), &c.input).map_err(|e| e.to_string())?;
        }
        opt(&mut flags, "-f", "--filename", "-");
    }
    if c.input_via == "file" {
        if c.real_fs.iter().any(|x| x == "input_is_dir") {
            std::fs::create_dir_all(&in_path).map_err(|e| e.to_string())?;
        } else if !c.real_fs.iter().any(|x| x == "input_missing") {
            std::fs::write(&in_path, &c.input).map_err(|e| e.to_string())?;
        }
        opt(&mut flags, "-f", "--filename", &in_path);
    }
    let mut positional: Vec<String> = vec![];
    if (c.expr_via == "argv" && c.illegal != "no_expr") || c.illegal == "both_expr_sources" {
        let t = String::from_utf8(c.expr.clone()).map_err(|_| "argv expression must be UTF-8".to_string())?;
        if t.contains('\0') {
            return Err("argv expression must not contain NUL".into());
        }
        positional.push(t);
    }
    let argv: Vec<String> = if c.flags_last {
        positional.into_iter().chain(flags.into_iter()).collect()
    } else {
        flags.into_iter().chain(positional.into_iter()).collect()
    };
    let trace_path = format!("{}/trace.txt", dir);
    let stdin_path = format!("{}/stdin.bin", dir);
    let mut cmd = Command::new(env.jp);
    cmd.args(&argv)
        .env_clear()
        .env("LD_PRELOAD", env.shim)
        .env("SYSSHIM_TRACE", &trace_path)
        .env("SYSSHIM_PLAN", c.plan.join(";"))
        .env("RUST_BACKTRACE", "0")
        .env("LC_ALL", "C")
        .envs(c.env.iter().filter(|(k, v)| !k.is_empty() && !k.contains('=') && !k.contains('\0') && !v.contains('\0')).map(|(k, v)| (k.clone(), v.clone())))
        .current_dir(&dir)
        .stdout(Stdio::piped())
        .stderr(Stdio::piped());
    let pipe_stdin = c.input_via == "stdin_pipe";
    if pipe_stdin {
        cmd.stdin(Stdio::piped());
    } else if c.input_via == "stdin_file" || c.input_via == "file_devstdin" {
        std::fs::write(&stdin_path, &c.input).map_err(|e| e.to_string())?;
        cmd.stdin(std::fs::File::open(&stdin_path).map_err(|e| e.to_string())?);
    } else if c.input_via == "file_dash" || c.input_via == "file_empty_name" {
        // a decoy on stdin: a jp that takes "-" to mean stdin would happily succeed on it
        std::fs::write(&stdin_path, b"{\"decoy\": true, \"a\": [1], \"xs\": [], \"u\": \"decoy\"}").map_err(|e| e.to_string())?;
        cmd.stdin(std::fs::File::open(&stdin_path).map_err(|e| e.to_string())?);
    } else {
        cmd.stdin(Stdio::null());
    }
    let mut child = cmd.spawn().map_err(|e| format!("spawn {}: {}", env.jp, e))?;
    let mut fifo_writer = None;
    let fifo_stop = std::sync::Arc::new(std::sync::atomic::AtomicBool::new(false));
    if c.input_via == "file_fifo" {
        let data = c.input.clone();
        let fp = fifo_path.clone();
        let stop = fifo_stop.clone();
        fifo_writer = Some(std::thread::spawn(move || {
            // non-blocking open in a retry loop: if jp never opens the FIFO (bad expression,
            // --ast) this must not hang
            use std::os::unix::fs::OpenOptionsExt;
            let t0 = Instant::now();
            let stopped = || stop.load(std::sync::atomic::Ordering::Relaxed);
            while t0.elapsed() < Duration::from_secs(25) && !stopped() {
                match std::fs::OpenOptions::new().write(true).custom_flags(0o4000 /* O_NONBLOCK */).open(&fp) {
                    Ok(mut f) => {
                        // the pipe holds 64 KiB; larger inputs are written as the reader drains it
                        let mut off = 0;
                        let mut spins = 0;
                        while off < data.len() && spins < 200000 && t0.elapsed() < Duration::from_secs(25) && !stopped() {
                            match f.write(&data[off..]) {
                                Ok(n) => off += n,
                                Err(e) if e.kind() == std::io::ErrorKind::WouldBlock => {
                                    spins += 1;
                                    std::thread::sleep(Duration::from_micros(50));
                                }
                                Err(_) => break,
                            }
                        }
                        return;
                    }
                    Err(_) => std::thread::sleep(Duration::from_micros(500)),
                }
            }
        }));
    }
    let mut writer = None;
    if pipe_stdin {
        let mut sin = child.stdin.take().unwrap();
        let data = c.input.clone();
        writer = Some(std::thread::spawn(move || {
            // deliberately awkward producer: small writes; the shim makes jp's view independent of this
            for ch in data.chunks(7) {
                if sin.write_all(ch).is_err() {
                    break;
                }
            }
        }));
    }
    let mut so = child.stdout.take().unwrap();
    let mut se = child.stderr.take().unwrap();
    let t_out = std::thread::spawn(move || {
        let mut b = Vec::new();
        let _ = so.read_to_end(&mut b);
        b
    });
    let t_err = std::thread::spawn(move || {
        let mut b = Vec::new();
        let _ = se.read_to_end(&mut b);
        b
    });
    // wall clock: budget only (20 s for a sub-millisecond program)
    let t0 = Instant::now();
    let mut sleep = Duration::from_micros(100);
    let mut timeout = false;
    let status = loop {
        match child.try_wait() {
            Ok(Some(st)) => break Some(st),
            Ok(None) => {
                if t0.elapsed() > Duration::from_secs(20) {
                    let _ = child.kill();
                    let _ = child.wait();
                    timeout = true;
                    break None;
                }
                std::thread::sleep(sleep);
                if sleep < Duration::from_millis(5) {
                    sleep *= 2;
                }
            }
            Err(e) => return Err(format!("wait: {}", e)),
        }
    };
    if let Some(w) = writer {
        let _ = w.join();
    }
    if let Some(w) = fifo_writer {
        // jp is gone: tell a writer that is still waiting for a reader to give up
        fifo_stop.store(true, std::sync::atomic::Ordering::Relaxed);
        let _ = w.join();
    }
    let stdout = t_out.join().unwrap_or_default();
    let stderr = t_err.join().unwrap_or_default();
    let trace = std::fs::read_to_string(&trace_path).unwrap_or_default();
    let _ = std::fs::remove_dir_all(&dir);
    use std::os::unix::process::ExitStatusExt;
    Ok(Obs {
        status: status.and_then(|s| s.code()),
        signal: status.map_or(false, |s| s.signal().is_some()),
        timeout,
        stdout,
        stderr,
        trace: trace.replace(&dir, "<dir>"),
        argv,
    })
}

fn trunc(b: &[u8], n: usize) -> String {
    let s = String::from_utf8_lossy(b);
    s.chars().take(n).collect()
}

/// Compare observation with expectation.  Returns violated clauses.
fn judge(c: &Case, exp: &Expect, o: &Obs) -> Vec<(&'static str, String)> {
    let mut v = vec![];
    if o.timeout {
        v.push(("timeout", "jp did not exit within 20 s".to_string()));
        return v;
    }
    if o.signal {
        v.push(("signal", format!("jp was killed by a signal; stderr: {}", trunc(&o.stderr, 300))));
        return v;
    }
    let code = o.status.unwrap_or(-1);
    let err_text = String::from_utf8_lossy(&o.stderr);
    if code == 101 || err_text.contains("panicked at") {
        v.push(("panic", format!("jp panicked (status {}): {}", code, trunc(&o.stderr, 400))));
        return v;
    }
    match exp {
        Expect::Failure(why) => {
            if code == 0 {
                v.push((
                    "wrong-status",
                    format!("expected failure ({}) but jp exited 0 with stdout {:?}", why, trunc(&o.stdout, 300)),
                ));
            }
            if !o.stdout.is_empty() {
                v.push((
                    "stdout-on-failure",
                    format!("expected failure ({}) with nothing on stdout, got {:?} (status {})", why, trunc(&o.stdout, 300), code),
                ));
            }
            if code != 0 && o.stderr.is_empty() {
                v.push(("no-diagnosis", format!("failure ({}) with status {} but empty stderr", why, code)));
            }
        }
        Expect::Success { stdout, no_input_access } => {
            if code != 0 {
                v.push((
                    "wrong-status",
                    format!("library succeeds but jp exited {} with stderr {:?}", code, trunc(&o.stderr, 300)),
                ));
            } else if &o.stdout != stdout {
                v.push((
                    "wrong-stdout",
                    format!("jp printed {:?} but the library result prints as {:?}", trunc(&o.stdout, 400), trunc(stdout, 400)),
                ));
            }
            if *no_input_access {
                let touched = o
                    .trace
                    .lines()
                    .any(|l| (l.starts_with("read ") && l.contains("target=stdin")) || l.contains("target=in.json"));
                if touched {
                    v.push((
                        "read-under-ast",
                        format!("--ast must not read input, but the syscall trace shows: {}", o.trace.lines().filter(|l| l.contains("stdin") || l.contains("in.json")).take(3).collect::<Vec<_>>().join(" / ")),
                    ));
                }
            }
        }
    }
    let _ = c;
    v
}

/// Faults that are outside the statement (output sink failures, EINTR): their
/// runs are executed and recorded but never alarmed.
fn informational(c: &Case) -> bool {
    c.plan
        .iter()
        .any(|d| d.starts_with("wshort:") || d.starts_with("werr:") || d.starts_with("eintr:"))
}

// ------------------------------------------------------------------ generation

fn json_doc_text(r: &mut Rng, j: &J) -> Vec<u8> {
    let mut t = j.to_json();
    if r.chance(1, 4) {
        t = format!("{}{}{}", r.pick(&["", " ", "\n", "\t \r\n"]), t, r.pick(&["", "\n", "  ", "\r\n"]));
    }
    t.into_bytes()
}

fn gen_input(r: &mut Rng, base: &J) -> (Vec<u8>, &'static str) {
    let good = json_doc_text(r, base);
    match r.below(20) {
        0..=10 => (good, "valid"),
        11 | 12 => {
            // producer crash image: any prefix, also inside a UTF-8 sequence or an escape
            let k = if good.is_empty() { 0 } else { r.below(good.len()) };
            (good[..k].to_vec(), "truncated")
        }
        13 => {
            let mut b = good.clone();
            if !b.is_empty() {
                let i = r.below(b.len());
                b[i] ^= 1 << r.below(8);
            }
            (b, "bitflip")
        }
        14 => {
            let mut b = good.clone();
            let tails: &[&[u8]] = &[b"x", b" 1", b"}", b",", b"\x00", b"[]"];
            b.extend_from_slice(tails[r.below(tails.len())]);
            (b, "trailing_garbage")
        }
        15 => (Vec::new(), "empty"),
        16 => {
            let mut b = good.clone();
            let i = if b.is_empty() { 0 } else { r.below(b.len()) };
            b.insert(i, *r.pick(&[0xffu8, 0xc3, 0xed, 0x80]));
            (b, "invalid_utf8")
        }
        17 => {
            let special: &[&[u8]] = &[
                b"18446744073709551615",
                b"18446744073709551616",
                b"[-0.0, 0, 0.0, -9223372036854775808, 1E+2, 1.0e-2, 2.50]",
                b"{\"a\": -9223372036854775808, \"b\": 1.0, \"c\": 1e21, \"d\": 123456789012345680000}",
                b"-9223372036854775808",
                b"-9223372036854775809",
                b"1e400",
                b"-0",
                b"-0.0",
                b"1E2",
                b"0.1e-320",
                b"123456789012345678901234567890",
                b"[1.0, 1, 1e0]",
                b"{\"a\": 1, \"a\": 2}",
                b"\"\\ud83d\\ude00\"",
                b"\"\\ud83d\"",
                b"\"\\u0000\"",
                b"\"\\/\"",
                b"{\"\": {\"\": 1}}",
                b"[[[[[[[[[[[[[[[[[[[[[[[[[[[[[[[[[[[[[[[[[[[[[[[[[[[[[[[[[[[[[[[[[[[[[[[[[[[[[[[[[[[[[[[[[[[[[[[[[[[[[[[[[[[[[[[[[[[[[[[[[[[[[[[[[[[[[[[[[[[[[[1]]]]]]]]]]]]]]]]]]]]]]]]]]]]]]]]]]]]]]]]]]]]]]]]]]]]]]]]]]]]]]]]]]]]]]]]]]]]]]]]]]]]]]]]]]]]]]]]]]]]]]]]]]]]]]]]]]]]]]]]]]]]]]]]]]]]]]]]]]]]]]",
                b"nul",
                b"true false",
                b"NaN",
                b"'single'",
            ];
            ((*r.pick(special)).to_vec(), "special")
        }
        18 => {
            match r.below(4) {
                0 => {
                    // a long string whose multi-byte characters straddle buffer boundaries
                    let target = *r.pick(&[4096usize, 8192, 16384, 65536, 131072]);
                    let mut s = String::from("{\"u\": \"");
                    if r.chance(1, 2) {
                        // a line break early in a long string: everything after it must still be printed
                        let heads: [&str; 3] = ["l1\\n", "\\n", "a\\r\\nb\\n"];
                        s.push_str(heads[r.below(3)]);
                    }
                    while s.len() < target - 3 - r.below(3) {
                        s.push('a');
                    }
                    for _ in 0..40 {
                        s.push(*r.pick(&['\u{e4}', '\u{20ac}', '\u{1F600}', 'z']));
                    }
                    s.push_str("\", \"a\": [1, 2, 3], \"xs\": []}");
                    (s.into_bytes(), "long_string")
                }
                1 => {
                    let depth = *r.pick(&[60usize, 100, 126, 127, 128, 129, 200]);
                    let mut s = String::new();
                    for _ in 0..depth {
                        s.push('[');
                    }
                    s.push('1');
                    for _ in 0..depth {
                        s.push(']');
                    }
                    (s.into_bytes(), "deep_nesting")
                }
                2 => {
                    let mut b = vec![0xefu8, 0xbb, 0xbf];
                    b.extend_from_slice(&good);
                    (b, "utf8_bom")
                }
                _ => {
                    let n = 3000 + r.below(6000);
                    let items: Vec<String> = (0..n).map(|i| ((i * 7919) % 10007).to_string()).collect();
                    (format!("{{\"a\": [{}], \"xs\": [], \"u\": \"x\"}}", items.join(",")).into_bytes(), "large_array")
                }
            }
        }
        _ => {
            // another valid document, unrelated to the expression
            let j = J::gen_doc(r);
            (json_doc_text(r, &j), "valid")
        }
    }
}

fn base_has_xs(base: &J) -> bool {
    matches!(base, J::Obj(m) if m.iter().any(|(k, v)| k == "xs" && matches!(v, J::Arr(a) if a.len() >= 2)))
}

fn gen_expr(r: &mut Rng, base: &J) -> (Vec<u8>, &'static str) {
    let none = ExtraFns::default();
    match r.below(21) {
        0..=8 => {
            let d = 1 + r.below(2) as u32;
            (ExprGen::new(r, &none).for_doc(base, d).into_bytes(), "directed")
        }
        9 | 10 => {
            let d = 1 + r.below(3) as u32;
            (ExprGen::new(r, &none).expr(d).into_bytes(), "generic")
        }
        11 | 12 => (ExprGen::new(r, &none).invalid().into_bytes(), "compile_error"),
        13 => {
            let e = *r.pick(&[
                "nosuchfn(@)",
                "xs[*].abs(n)",
                "[::0]",
                "xs[?id > `0`] | [0].nosuchfn(@)",
                "abs('x')",
                "length(`1`)",
                "sort_by(xs, &n)[::0]",
                "map(&abs(@), values(@))",
                "sum(keys(@))",
                "max_by(xs, &`true`)",
                "join(`1`, @)",
            ]);
            (e.as_bytes().to_vec(), "runtime_error")
        }
        14 | 19 if base_has_xs(base) => {
            // slices and indexes at the edges of the number type
            let n = |r: &mut Rng| -> String {
                if r.chance(1, 2) {
                    (*r.pick(&["2147483647", "-2147483648", "-2147483647", "2147483646", "2147483647", "2147483648", "99999999999"])).to_string()
                } else {
                    (*r.pick(&["1", "-1", "0", "3", "2", "-2"])).to_string()
                }
            };
            let pre = *r.pick(&["xs", "xs", "", "a", "xs[*].n | "]);
            let e = match r.below(6) {
                0 => format!("{}[{}:{}:{}]", pre, n(r), n(r), n(r)),
                1 => format!("{}[{}::{}]", pre, n(r), n(r)),
                2 => format!("{}[::{}]", pre, n(r)),
                3 => format!("{}[{}]", pre, n(r)),
                4 => format!("{}[{}:{}]", pre, n(r), n(r)),
                _ => format!("{}[:{}:{}]", pre, n(r), n(r)),
            };
            (e.into_bytes(), "edge_numbers")
        }
        15 => {
            let e = *r.pick(&[
                "'\u{e4}\u{1F600}'",
                "`\"\\u20ac\"`",
                "\"\u{20ac}\"",
                "@.\"a b\"",
                "`{\"\u{e4}\": [1, 2.5, \"\u{1F600}\"]}`",
                "'it\\'s'",
                "`18446744073709551615`",
                "`1e400`",
                "`-0.0`",
                "to_string(`18446744073709551615`)",
                "`\"\\ud83d\"`",
                "'\u{0}'",
            ]);
            (e.as_bytes().to_vec(), "unicode_literal")
        }
        16 if r.chance(1, 2) => {
            let d = 1 + r.below(2) as u32;
            let e = ExprGen::new(r, &none).for_doc(base, d);
            (format!("\n  {}\n\t", e.replace(" | ", "\n|\n")).into_bytes(), "multiline")
        }
        16 => {
            // conventions of OTHER text files that mean nothing in JMESPath: comment markers,
            // shebangs, continuation backslashes, BOMs -- as lines of their own (the library
            // rejects them) and as lines of a multi-line raw string or literal (they are data)
            let d = 1;
            let e = ExprGen::new(r, &none).for_doc(base, d);
            let mark = *r.pick(&["#", "# note", "  # note", "//", "// x", ";", "-- x", "#!/usr/bin/jp", "%", "\u{feff}", "/* x */", "REM"]);
            let t = match r.below(6) {
                0 => format!("{}\n{}\n", mark, e),
                1 => format!("{}\n{}\n", e, mark),
                2 => format!("'line one\n{}\nline three'", mark),
                3 => format!("`\"a\n{}\"`", mark.replace('"', "")),
                4 => format!("{} \\\n | @", e),
                _ => format!("[{},\n{}\n'{}']", e, mark, mark),
            };
            (t.into_bytes(), "foreign_file_conventions")
        }
        17 => {
            if r.chance(1, 2) {
                ((*r.pick(&["&a", "[&a, `1`]", "{x: &@}", "to_string(&a)", "type(&a)"])).as_bytes().to_vec(), "expref_result")
            } else {
                // white space that is DATA: inside raw strings, quoted identifiers and literals
                // (CR LF, lone CR, tabs, leading / trailing / doubled blanks, NBSP, BOM)
                let e = *r.pick(&[
                    "'a\r\nb'",
                    "u == 'l1\r\nl2'",
                    "'\r'",
                    "' x '",
                    "'tab\there'",
                    "'two  spaces'",
                    "'a\nb'",
                    "\"a b\"",
                    "`\"x  y\"`",
                    "'\u{a0}nbsp'",
                    "'\u{feff}bom'",
                    "'end\r\n'",
                    "join('\r\n', xs[*].s)",
                    "[u, 'a\r\nb'] | [0] == [1]",
                    "'trailing '",
                    "'\t'",
                ]);
                (e.as_bytes().to_vec(), "whitespace_in_literal")
            }
        }
        18 => (
            (*r.pick(&["@", "", " ", "a", "*", "[]", "[*]", "`null`", "!@", "@ | @"])).as_bytes().to_vec(),
            "tiny",
        ),
        _ => {
            // expression bytes that are not UTF-8 (only meaningful through -e)
            let d = 1;
            let mut b = ExprGen::new(r, &none).for_doc(base, d).into_bytes();
            let i = if b.is_empty() { 0 } else { r.below(b.len()) };
            b.insert(i, 0xff);
            (b, "invalid_utf8")
        }
    }
}

fn gen_plan(r: &mut Rng, c: &Case) -> Vec<String> {
    let mut plan = vec![];
    let in_target = if c.input_via == "file" { "in.json" } else { "stdin" };
    let mut targets = match c.input_via.as_str() {
        "file_dash" | "file_empty_name" | "file_fifo" => vec![],
        // /dev/stdin is opened as a path: reads on that descriptor are not the shim's fd 0
        "file_devstdin" => vec![],
        _ => vec![in_target],
    };
    if c.expr_via == "file" {
        targets.push("expr.txt");
    }
    let len_of = |t: &str| if t == "expr.txt" { c.expr.len() } else { c.input.len() };
    let n = match r.below(10) {
        0..=3 => 0,
        4..=7 => 1,
        _ => 2,
    };
    for _ in 0..n {
        if targets.is_empty() {
            break;
        }
        let t = *r.pick(&targets);
        match r.below(12) {
            0..=3 => {
                let k = 1 + r.below(4);
                let sizes: Vec<String> = (0..k).map(|_| (*r.pick(&[1usize, 1, 2, 3, 5, 7, 16, 31, 64, 4096])).to_string()).collect();
                plan.push(format!("chunk:{}:{}", t, sizes.join(",")));
            }
            4 | 5 => {
                if t != "stdin" {
                    plan.push(format!("openerr:{}:{}", t, r.pick(&[2, 13, 21, 40, 24, 5, 12, 23])));
                } else {
                    plan.push(format!("readerr:{}:{}:{}", t, r.below(len_of(t) + 1), r.pick(&[5, 21, 11, 12])));
                }
            }
            // NB: EBADF is deliberately absent: std documents that a closed stdin reads as empty
            6 | 7 => plan.push(format!("readerr:{}:{}:{}", t, r.below(len_of(t) + 2), r.pick(&[5, 21, 11, 12]))),
            8 | 9 => plan.push(format!("eof:{}:{}", t, r.below(len_of(t) + 2))),
            10 => plan.push(format!("eintr:{}:{}", t, 1 + r.below(3))),
            _ => {
                if r.chance(1, 2) {
                    plan.push(format!("wshort:{}:{}", 1 + r.below(2), 1 + r.below(5)));
                } else {
                    plan.push(format!("werr:{}:{}:{}", 1 + r.below(2), r.below(20), r.pick(&[28, 32, 5])));
                }
            }
        }
    }
    // one directive per (kind, target): later duplicates would silently override
    let mut seen = BTreeSet::new();
    plan.retain(|d| {
        let p: Vec<&str> = d.split(':').collect();
        seen.insert(format!("{}:{}", p[0], p[1]))
    });
    plan
}

fn gen_case(seed: u64, discovered: &BTreeSet<String>) -> Case {
    let mut r = Rng::new(seed);
    let base = if r.chance(2, 3) {
        // records document; now and then big enough for input and output to exceed any
        // plausible buffer (4 KiB, 8 KiB, 64 KiB)
        let n = if r.chance(1, 14) { 400 + r.below(2600) } else { r.below(5) };
        let xs: Vec<J> = (0..n)
            .map(|i| {
                J::Obj(vec![
                    ("id".into(), J::Int(i as i64)),
                    ("n".into(), J::Int(r.range(-5, 20))),
                    ("s".into(), J::Str((*r.pick(simcore::gen::STRS)).to_string())),
                ])
            })
            .collect();
        let mut b = 10;
        J::Obj(vec![
            ("xs".into(), J::Arr(xs)),
            ("a".into(), J::gen(&mut r, 2, &mut b, true)),
            ("a b".into(), J::Str("sp".into())),
            ("big".into(), J::UInt(u64::MAX)),
            ("f".into(), J::Float(*r.pick(&[0.1, 1.0, -2.5, 1e21, 1e-7, 123456789.125]))),
            ("u".into(), J::Str((*r.pick(&["\u{e4}", "\u{1F600}", "a\"b", "tab\there", "\u{7f}", "\\", "l1\r\nl2", "a\r\nb", " x ", "\u{85}\u{9f}", "line\nfeed"])).to_string())),
        ])
    } else {
        J::gen_doc(&mut r)
    };
    let (expr, expr_class) = gen_expr(&mut r, &base);
    let (input, input_class) = gen_input(&mut r, &base);
    let expr_utf8_argv_ok = std::str::from_utf8(&expr).map_or(false, |t| !t.contains('\0') && !t.starts_with('-'));
    let mut c = Case {
        expr,
        expr_via: if !expr_utf8_argv_ok || r.chance(1, 3) { "file".into() } else { "argv".into() },
        input,
        input_via: if r.chance(1, 30) {
            "file_dash".to_string()
        } else if r.chance(1, 30) {
            (*r.pick(&["file_empty_name", "file_devstdin", "file_fifo"])).to_string()
        } else {
            (*r.pick(&["stdin_file", "stdin_file", "stdin_pipe", "file", "file"])).to_string()
        },
        unquoted: r.chance(1, 3),
        ast: r.chance(1, 8),
        illegal: String::new(),
        real_fs: vec![],
        plan: vec![],
        spelling: *r.pick(&[0u8, 0, 0, 1, 2, 3]),
        flags_last: r.chance(1, 4),
        env: vec![],
        expr_class: expr_class.into(),
        input_class: input_class.into(),
    };
    if c.input_via == "file_empty_name" {
        // clap's treatment of an empty option value (it may take the next argument as the
        // value) is not jp's business; keep the case to what the statement covers: an
        // unreadable input, which must fail
        c.ast = false;
    }
    if r.chance(1, 40) && expr_utf8_argv_ok {
        c.illegal = (*r.pick(&["both_expr_sources", "no_expr"])).to_string();
        c.expr_via = "argv".into();
    }
    if r.chance(1, 25) || (c.input_via == "file_dash" && r.chance(1, 2)) {
        let mut opts = vec![];
        if c.expr_via == "file" {
            opts.push("expr_missing");
            opts.push("expr_is_dir");
        }
        if c.input_via == "file" {
            opts.push("input_missing");
            opts.push("input_is_dir");
        }
        if c.input_via == "file_dash" {
            opts.push("input_missing");
            opts.push("input_missing");
        }
        if !opts.is_empty() {
            c.real_fs.push((*r.pick(&opts)).to_string());
        }
    }
    c.plan = gen_plan(&mut r, &c);
    // configuration inputs: the statement has no exception for the environment or for
    // stdout being a terminal, so jp must answer the same with any of these set
    if r.chance(1, 5) {
        let pool: Vec<&str> = ENV_NAMES.iter().copied().chain(discovered.iter().map(|s| s.as_str())).collect();
        for _ in 0..(1 + r.below(3)) {
            let k = pool[r.below(pool.len())].to_string();
            let v = (*r.pick(&["1", "0", "true", "", "always", "never", "4", "xyz", "en_US.UTF-8", "tr_TR.UTF-8", "dumb", "80"])).to_string();
            if !c.env.iter().any(|(kk, _)| *kk == k) {
                c.env.push((k, v));
            }
        }
    }
    if r.chance(1, 8) {
        let fd = *r.pick(&[1, 1, 1, 2, 0]);
        c.plan.push(format!("tty:{}", fd));
        if r.chance(1, 3) {
            c.plan.push("tty:2".to_string());
        }
        c.plan.sort();
        c.plan.dedup();
    }
    c
}

/// Variable names a command-line tool plausibly consults; names jp is actually seen to
/// query (getenv is traced by the shim) are added to the pool as the run goes on.
const ENV_NAMES: &[&str] = &[
    "NO_COLOR", "CLICOLOR", "CLICOLOR_FORCE", "COLORTERM", "TERM", "COLUMNS", "LINES", "LANG", "LC_NUMERIC", "LC_CTYPE",
    "JP_UNQUOTED", "JP_COMPACT", "JP_INDENT", "JP_COLOR", "JP_FILENAME", "JP_EXPR_FILE", "JP_OPTS", "JMESPATH_OPTS", "HOME",
    "PWD", "TMPDIR", "RUST_LOG", "DEBUG", "VERBOSE", "QUIET", "CI", "PAGER", "POSIXLY_CORRECT",
];

/// Fixed grid: flag configurations x program classes x input classes x fault kinds, once each.
fn grid() -> Vec<Case> {
    let mut out = vec![];
    let progs: &[(&str, &str)] = &[
        ("xs[*].n | sort(@)", "valid"),
        ("u", "valid_string_result"),
        ("xs[", "compile_error"),
        ("xs[*].abs(s)", "runtime_error"),
    ];
    let good = "{\"xs\": [{\"n\": 3, \"s\": \"\u{e4}\"}, {\"n\": -1, \"s\": \"b\"}], \"u\": \"\u{1F600} q\\\"q\", \"big\": 18446744073709551615}";
    let inputs: &[(&str, &str)] = &[(good, "valid"), ("{\"xs\": [", "bad_json")];
    let faults: &[&str] = &["none", "chunk", "openerr", "readerr", "eof_mid", "missing", "isdir"];
    for &(p, pc) in progs {
        for &(inp, ic) in inputs {
            for expr_via in ["argv", "file"] {
                for input_via in ["stdin_file", "stdin_pipe", "file"] {
                    for unquoted in [false, true] {
                        for ast in [false, true] {
                            for &f in faults {
                                let mut c = Case {
                                    expr: p.as_bytes().to_vec(),
                                    expr_via: expr_via.into(),
                                    input: inp.as_bytes().to_vec(),
                                    input_via: input_via.into(),
                                    unquoted,
                                    ast,
                                    illegal: String::new(),
                                    real_fs: vec![],
                                    plan: vec![],
                                    spelling: 0,
                                    flags_last: false,
                                    env: vec![],
                                    expr_class: pc.into(),
                                    input_class: ic.into(),
                                };
                                let it = if input_via == "file" { "in.json" } else { "stdin" };
                                match f {
                                    "none" => {}
                                    "chunk" => {
                                        c.plan.push(format!("chunk:{}:1,2,3", it));
                                        if expr_via == "file" {
                                            c.plan.push("chunk:expr.txt:1".into());
                                        }
                                    }
                                    "openerr" => {
                                        if input_via == "file" {
                                            c.plan.push("openerr:in.json:13".into());
                                        } else if expr_via == "file" {
                                            c.plan.push("openerr:expr.txt:13".into());
                                        } else {
                                            continue;
                                        }
                                    }
                                    "readerr" => c.plan.push(format!("readerr:{}:9:5", it)),
                                    "eof_mid" => c.plan.push(format!("eof:{}:11", it)),
                                    "missing" => {
                                        if input_via == "file" {
                                            c.real_fs.push("input_missing".into());
                                        } else if expr_via == "file" {
                                            c.real_fs.push("expr_missing".into());
                                        } else {
                                            continue;
                                        }
                                    }
                                    _ => {
                                        if input_via == "file" {
                                            c.real_fs.push("input_is_dir".into());
                                        } else if expr_via == "file" {
                                            c.real_fs.push("expr_is_dir".into());
                                        } else {
                                            continue;
                                        }
                                    }
                                }
                                out.push(c);
                            }
                        }
                    }
                }
            }
        }
    }
    for ill in ["both_expr_sources", "no_expr"] {
        out.push(Case {
            expr: b"a".to_vec(),
            expr_via: "argv".into(),
            input: b"{}".to_vec(),
            input_via: "stdin_file".into(),
            unquoted: false,
            ast: false,
            illegal: ill.into(),
            real_fs: vec![],
            plan: vec![],
            spelling: 0,
            flags_last: false,
            env: vec![],
            expr_class: "valid".into(),
            input_class: "valid".into(),
        });
    }
    out
}

// ------------------------------------------------------------------ main

fn arg<'a>(args: &'a [String], name: &str) -> Option<&'a str> {
    args.iter()
        .position(|a| a == name)
        .and_then(|i| args.get(i + 1))
        .map(|s| s.as_str())
}
fn die(msg: &str) -> ! {
    eprintln!("clisim: {}", msg);
    std::process::exit(2)
}

fn fault_kinds(c: &Case) -> Vec<String> {
    let mut k: Vec<String> = c.plan.iter().map(|d| d.split(':').next().unwrap_or("").to_string()).collect();
    k.extend(c.real_fs.iter().cloned());
    if k.is_empty() {
        k.push("none".into());
    }
    k.sort();
    k.dedup();
    k
}

struct Tot {
    /// environment variable names jp was seen to query
    seen_env: BTreeSet<String>,
    c: BTreeMap<String, u64>,
    cells: BTreeSet<u64>,
    cells_nontrivial: BTreeSet<u64>,
    traces: BTreeSet<u64>,
}

fn process(env: &Env, idx: u64, c: &Case, tot: &mut Tot, out: &mut dyn Write, verbose: bool) -> usize {
    let exp = oracle(c);
    let mut o = match run_case(env, c, &format!("{:08}", idx)) {
        Ok(o) => o,
        Err(e) => die(&format!("case {}: {}", idx, e)),
    };
    if o.timeout {
        // jp under the shim is deterministic: a real hang hangs again.  One more try keeps
        // an overloaded machine from being reported as "jp does not exit".
        *tot.c.entry("timeouts_retried".into()).or_insert(0) += 1;
        o = match run_case(env, c, &format!("{:08}", idx)) {
            Ok(o) => o,
            Err(e) => die(&format!("case {}: {}", idx, e)),
        };
    }
    let viol = judge(c, &exp, &o);
    let info = informational(c);
    for l in o.trace.lines() {
        if let Some(n) = l.strip_prefix("getenv name=") {
            if !n.starts_with("RUST_") && !n.starts_with("LD_") && tot.seen_env.insert(n.to_string()) {
                *tot.c.entry(format!("getenv_seen.{}", n)).or_insert(0) += 1;
            }
        }
    }
    if !c.env.is_empty() {
        *tot.c.entry("fault.fired.env_set".into()).or_insert(0) += 1;
    }
    let kinds = fault_kinds(c);
    for k in &kinds {
        // counted where the fault actually hit, as shown by the shim's trace / the file system
        let hit = match k.as_str() {
            "none" => true,
            "chunk" => o.trace.lines().filter(|l| l.starts_with("read ")).count() > 1,
            "openerr" => o.trace.contains("(injected)") && o.trace.contains("open path="),
            "readerr" => o.trace.contains("(injected after"),
            "eof" => o.trace.contains("(injected EOF"),
            "eintr" => o.trace.contains("injected EINTR"),
            "wshort" | "werr" => o.trace.contains("write"),
            "tty" => o.trace.contains("isatty") && o.trace.contains("(injected)"),
            _ => true,
        };
        *tot.c.entry(format!("fault.{}.{}", if hit { "fired" } else { "planned_not_reached" }, k)).or_insert(0) += 1;
    }
    let outcome = match (&exp, o.status) {
        (Expect::Success { .. }, _) => "success",
        (Expect::Failure(_), _) => "failure",
    };
    *tot.c.entry(format!("expect.{}", outcome)).or_insert(0) += 1;
    *tot.c.entry(format!("expr.{}", c.expr_class)).or_insert(0) += 1;
    *tot.c.entry(format!("input.{}", c.input_class)).or_insert(0) += 1;
    *tot.c.entry(format!("via.{}+{}", c.expr_via, c.input_via)).or_insert(0) += 1;
    if info {
        *tot.c.entry("informational_runs".into()).or_insert(0) += 1;
        if !viol.is_empty() {
            *tot.c.entry(format!("informational_deviation.{}", viol[0].0)).or_insert(0) += 1;
        }
    }
    let mut ch = Hasher64::new();
    ch.str(&c.expr_via).str(&c.input_via).u64(c.unquoted as u64).u64(c.ast as u64).str(&c.illegal);
    ch.str(&c.expr_class).str(&c.input_class).str(&kinds.join("+")).str(outcome);
    let cell = ch.finish();
    tot.cells.insert(cell);
    if kinds != ["none"] || outcome == "failure" {
        tot.cells_nontrivial.insert(cell);
    }
    let th = fnv(o.trace.as_bytes());
    tot.traces.insert(th);
    let mut oh = Hasher64::new();
    // The diagnosis text is not part of the property and is not even deterministic (clap 2
    // words its conflict errors after a randomly keyed hash order; messages embed scratch
    // paths; panics embed thread ids).  So only the *presence* of stderr enters the
    // determinism hash, and writes to fd 2 are dropped from the hashed trace.
    let norm_trace: Vec<&str> = o
        .trace
        .lines()
        .filter(|l| !(l.starts_with("write fd=2") || l.starts_with("writev fd=2")))
        .collect();
    oh.u64(o.status.unwrap_or(-1) as u64).bytes(&o.stdout).u64(o.stderr.is_empty() as u64).str(&norm_trace.join("\n"));
    writeln!(out, "R {} {:016x} {} {} {:016x}", idx, cell, outcome, o.status.unwrap_or(-1), oh.finish()).unwrap();
    if verbose {
        writeln!(out, "  argv: {:?}", o.argv).unwrap();
        writeln!(out, "  plan: {:?} real_fs: {:?}", c.plan, c.real_fs).unwrap();
        writeln!(out, "  expected: {}", match &exp {
            Expect::Failure(w) => format!("failure ({})", w),
            Expect::Success { stdout, .. } => format!("success, stdout {:?}", trunc(stdout, 300)),
        })
        .unwrap();
        writeln!(out, "  observed: status {:?} stdout {:?} stderr {:?}", o.status, trunc(&o.stdout, 300), trunc(&o.stderr, 300)).unwrap();
        for l in o.trace.lines().take(40) {
            writeln!(out, "  trace: {}", l).unwrap();
        }
    }
    let mut n = 0;
    if !viol.is_empty() && !info {
        // the exact case, so that the driver never has to re-generate it
        writeln!(out, "CASE {} {}", idx, serde_json::to_string(&case_to_json(c)).unwrap()).unwrap();
    }
    for (clause, detail) in &viol {
        if info {
            writeln!(out, "I {} {} {}", idx, clause, serde_json::to_string(detail).unwrap()).unwrap();
        } else {
            n += 1;
            writeln!(out, "V {} {} {}", idx, clause, serde_json::to_string(detail).unwrap()).unwrap();
        }
    }
    n
}

fn main() {
    std::panic::set_hook(Box::new(|_| {}));
    let args: Vec<String> = std::env::args().collect();
    let cmd = args.get(1).map(|s| s.as_str()).unwrap_or("");
    let getenv = || -> (String, String, String) {
        (
            arg(&args, "--jp").unwrap_or_else(|| die("--jp required")).to_string(),
            arg(&args, "--shim").unwrap_or_else(|| die("--shim required")).to_string(),
            arg(&args, "--work").unwrap_or_else(|| die("--work required")).to_string(),
        )
    };
    match cmd {
        "gen" => {
            let seed: u64 = arg(&args, "--seed").and_then(|s| s.parse().ok()).unwrap_or(simcore::DEFAULT_SEED);
            let index: u64 = arg(&args, "--index").and_then(|s| s.parse().ok()).unwrap_or(0);
            let c = gen_case(mix(seed, index), &BTreeSet::new());
            println!("{}", serde_json::to_string(&json!({"property":"C18","seed":seed,"index":index,"case":case_to_json(&c)})).unwrap());
        }
        "grid" => {
            for (i, c) in grid().iter().enumerate() {
                println!("{}", serde_json::to_string(&json!({"property":"C18","grid_index":i,"case":case_to_json(c)})).unwrap());
            }
        }
        "run" | "rungrid" => {
            let (jp, shim, work) = getenv();
            let env = Env { jp: &jp, shim: &shim, work: &work };
            let seed: u64 = arg(&args, "--seed").and_then(|s| s.parse().ok()).unwrap_or(simcore::DEFAULT_SEED);
            let start: u64 = arg(&args, "--start").and_then(|s| s.parse().ok()).unwrap_or(0);
            let count: u64 = arg(&args, "--count").and_then(|s| s.parse().ok()).unwrap_or(100);
            let samples: u64 = arg(&args, "--samples").and_then(|s| s.parse().ok()).unwrap_or(0);
            let out_path = arg(&args, "--out").unwrap_or_else(|| die("--out required"));
            let mut out = std::io::BufWriter::new(std::fs::File::create(out_path).unwrap_or_else(|e| die(&e.to_string())));
            let mut tot = Tot { seen_env: BTreeSet::new(), c: BTreeMap::new(), cells: BTreeSet::new(), cells_nontrivial: BTreeSet::new(), traces: BTreeSet::new() };
            writeln!(out, "SEED {} start={} count={} mode={}", seed, start, count, cmd).unwrap();
            let mut nviol = 0;
            if cmd == "rungrid" {
                let g = grid();
                let stride: u64 = arg(&args, "--stride").and_then(|s| s.parse().ok()).unwrap_or(1);
                for (i, c) in g.iter().enumerate() {
                    if (i as u64) % stride != start {
                        continue;
                    }
                    nviol += process(&env, i as u64, c, &mut tot, &mut out, false);
                }
            } else {
                for idx in start..start + count {
                    let c = gen_case(mix(seed, idx), &tot.seen_env.clone());
                    nviol += process(&env, idx, &c, &mut tot, &mut out, false);
                    if idx < start + samples {
                        writeln!(out, "SAMPLE {}", serde_json::to_string(&json!({"index": idx, "case": case_to_json(&c)})).unwrap()).unwrap();
                    }
                }
            }
            let hexes = |s: &BTreeSet<u64>| -> Vec<String> { s.iter().map(|x| format!("{:016x}", x)).collect() };
            writeln!(out, "STATS {}", serde_json::to_string(&json!({"counters": tot.c, "cells": hexes(&tot.cells),
                "cells_nontrivial": hexes(&tot.cells_nontrivial), "traces": hexes(&tot.traces)})).unwrap()).unwrap();
            writeln!(out, "END violations={}", nviol).unwrap();
            out.flush().unwrap();
        }
        "exec" => {
            let (jp, shim, work) = getenv();
            let env = Env { jp: &jp, shim: &shim, work: &work };
            let file = arg(&args, "--file").unwrap_or_else(|| die("--file required"));
            let verbose = args.iter().any(|a| a == "--verbose");
            let text = std::fs::read_to_string(file).unwrap_or_else(|e| die(&format!("cannot read {}: {}", file, e)));
            let v: Value = serde_json::from_str(&text).unwrap_or_else(|e| die(&format!("bad JSON: {}", e)));
            let c = case_from_json(v.get("case").unwrap_or(&v)).unwrap_or_else(|e| die(&e));
            let mut tot = Tot { seen_env: BTreeSet::new(), c: BTreeMap::new(), cells: BTreeSet::new(), cells_nontrivial: BTreeSet::new(), traces: BTreeSet::new() };
            let so = std::io::stdout();
            let mut lock = so.lock();
            let n = process(&env, v.get("index").and_then(|x| x.as_u64()).unwrap_or(0), &c, &mut tot, &mut lock, verbose);
            writeln!(lock, "END violations={}", n).unwrap();
        }
        _ => die("usage: clisim run|rungrid|exec|gen|grid ..."),
    }
}
