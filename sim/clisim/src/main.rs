fn main(){}
