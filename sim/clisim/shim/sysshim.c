/* sysshim — LD_PRELOAD seam between jp and the kernel.
 *
 * The simulator owns every read() and open() on the inputs of interest.  A
 * fault plan (environment variable SYSSHIM_PLAN) decides, call by call, how
 * many bytes a read returns, whether it fails and with which errno, where the
 * stream ends, and whether an open fails.  Every decision is appended to the
 * trace file (SYSSHIM_TRACE).  Nothing here reads a clock or a random source,
 * and reads are completed by looping on the real read(), so the timing of a
 * pipe writer cannot leak into what jp sees: plan + input bytes => trace.
 *
 * Plan grammar (directives separated by ';'):
 *   chunk:<target>:<n1>,<n2>,...   successive reads return at most n_i bytes (cycled)
 *   readerr:<target>:<after>:<errno>   once <after> bytes were delivered, read fails
 *   eof:<target>:<after>           once <after> bytes were delivered, read returns 0
 *   eintr:<target>:<k>             the k-th read (1-based) fails once with EINTR
 *   openerr:<suffix>:<errno>       open of a path ending in <suffix> fails
 *   wshort:<fd>:<n>                writes to fd 1/2 accept at most n bytes per call
 *   werr:<fd>:<after>:<errno>      once <after> bytes were written to fd, write fails
 *   tty:<fd>                       isatty(fd) answers 1 (the fd is still the pipe it was)
 * Besides, every getenv() the program makes is traced (name only), which is how the
 * simulator discovers configuration inputs it should vary.
 * <target> is "stdin" or a path suffix.
 */
#define _GNU_SOURCE
#include <dlfcn.h>
#include <errno.h>
#include <fcntl.h>
#include <stdarg.h>
#include <stdio.h>
#include <stdlib.h>
#include <string.h>
#include <sys/syscall.h>
#include <sys/types.h>
#include <sys/uio.h>
#include <unistd.h>

#define MAXT 8
#define MAXCH 64

struct target {
    char name[256];
    int nchunks;
    long chunks[MAXCH];
    int chunk_i;
    long readerr_after, eof_after;
    int readerr_errno;
    int eintr_at;
    int openerr;
    long delivered;
    int reads;
    int used;
};

static struct target T[MAXT];
static int nT = 0;
static int fd_target[1024];
static int trace_fd = -1;
static int inited = 0;
static long wshort[3] = {0, 0, 0};
static long werr_after[3] = {-1, -1, -1};
static int werr_errno[3] = {0, 0, 0};
static long written[3] = {0, 0, 0};

static int tty_fd[3] = {0, 0, 0};
static int (*real_isatty)(int);
static char *(*real_getenv)(const char *);
static int env_tracing = 0;
extern char **environ;

/* own lookup: must not go through the interposed getenv */
static const char *env_lookup(const char *name) {
    size_t n = strlen(name);
    for (char **e = environ; e && *e; e++)
        if (strncmp(*e, name, n) == 0 && (*e)[n] == '=') return *e + n + 1;
    return NULL;
}

static ssize_t (*real_read)(int, void *, size_t);
static ssize_t (*real_write)(int, const void *, size_t);
static ssize_t (*real_writev)(int, const struct iovec *, int);
static int (*real_open64)(const char *, int, ...);
static int (*real_open)(const char *, int, ...);
static int (*real_openat)(int, const char *, int, ...);
static int (*real_close)(int);

static void trace(const char *fmt, ...) {
    if (trace_fd < 0) return;
    char buf[1024];
    va_list ap;
    va_start(ap, fmt);
    int n = vsnprintf(buf, sizeof buf, fmt, ap);
    va_end(ap);
    if (n > (int)sizeof buf - 1) n = sizeof buf - 1;
    syscall(SYS_write, trace_fd, buf, n);
}

static struct target *get_target(const char *name) {
    for (int i = 0; i < nT; i++)
        if (strcmp(T[i].name, name) == 0) return &T[i];
    if (nT >= MAXT) return NULL;
    struct target *t = &T[nT++];
    memset(t, 0, sizeof *t);
    strncpy(t->name, name, sizeof t->name - 1);
    t->readerr_after = -1;
    t->eof_after = -1;
    t->used = 1;
    return t;
}

static void parse_plan(char *plan) {
    char *save1;
    for (char *d = strtok_r(plan, ";", &save1); d; d = strtok_r(NULL, ";", &save1)) {
        char *save2;
        char *kind = strtok_r(d, ":", &save2);
        char *a = strtok_r(NULL, ":", &save2);
        char *b = strtok_r(NULL, ":", &save2);
        char *c = strtok_r(NULL, ":", &save2);
        if (!kind || !a) continue;
        if (!strcmp(kind, "wshort") && b) {
            int fd = atoi(a);
            if (fd == 1 || fd == 2) wshort[fd] = atol(b);
            continue;
        }
        if (!strcmp(kind, "tty")) {
            int fd = atoi(a);
            if (fd >= 0 && fd <= 2) tty_fd[fd] = 1;
            continue;
        }
        if (!strcmp(kind, "werr") && b && c) {
            int fd = atoi(a);
            if (fd == 1 || fd == 2) { werr_after[fd] = atol(b); werr_errno[fd] = atoi(c); }
            continue;
        }
        struct target *t = get_target(a);
        if (!t) continue;
        if (!strcmp(kind, "chunk") && b) {
            char *save3;
            for (char *n = strtok_r(b, ",", &save3); n && t->nchunks < MAXCH; n = strtok_r(NULL, ",", &save3))
                t->chunks[t->nchunks++] = atol(n) > 0 ? atol(n) : 1;
        } else if (!strcmp(kind, "readerr") && b && c) {
            t->readerr_after = atol(b);
            t->readerr_errno = atoi(c);
        } else if (!strcmp(kind, "eof") && b) {
            t->eof_after = atol(b);
        } else if (!strcmp(kind, "eintr") && b) {
            t->eintr_at = atoi(b);
        } else if (!strcmp(kind, "openerr") && b) {
            t->openerr = atoi(b);
        }
    }
}

static void init(void) {
    if (inited) return;
    inited = 1;
    real_read = dlsym(RTLD_NEXT, "read");
    real_write = dlsym(RTLD_NEXT, "write");
    real_writev = dlsym(RTLD_NEXT, "writev");
    real_open64 = dlsym(RTLD_NEXT, "open64");
    real_open = dlsym(RTLD_NEXT, "open");
    real_openat = dlsym(RTLD_NEXT, "openat");
    real_close = dlsym(RTLD_NEXT, "close");
    real_isatty = dlsym(RTLD_NEXT, "isatty");
    real_getenv = dlsym(RTLD_NEXT, "getenv");
    for (int i = 0; i < 1024; i++) fd_target[i] = -1;
    const char *tp = env_lookup("SYSSHIM_TRACE");
    if (tp) trace_fd = syscall(SYS_openat, AT_FDCWD, tp, O_WRONLY | O_CREAT | O_APPEND | O_CLOEXEC, 0644);
    const char *plan = env_lookup("SYSSHIM_PLAN");
    struct target *in = get_target("stdin");
    (void)in;
    if (plan) {
        char *copy = strdup(plan);
        parse_plan(copy);
        free(copy);
    }
    fd_target[0] = 0; /* T[0] is always stdin */
    env_tracing = 1;
}

char *getenv(const char *name) {
    if (!inited) {
        /* early callers (loader, libc start-up): answer from environ, no tracing */
        return (char *)env_lookup(name);
    }
    if (env_tracing && name && strncmp(name, "SYSSHIM_", 8) != 0) trace("getenv name=%s\n", name);
    return real_getenv ? real_getenv(name) : (char *)env_lookup(name);
}

int isatty(int fd) {
    init();
    if (fd >= 0 && fd <= 2 && tty_fd[fd]) {
        trace("isatty fd=%d -> 1 (injected)\n", fd);
        return 1;
    }
    int r = real_isatty ? real_isatty(fd) : 0;
    if (fd >= 0 && fd <= 2) trace("isatty fd=%d -> %d\n", fd, r);
    return r;
}

static int ends_with(const char *s, const char *suf) {
    size_t a = strlen(s), b = strlen(suf);
    return b <= a && strcmp(s + a - b, suf) == 0;
}

static int match_path(const char *path) {
    for (int i = 1; i < nT; i++)
        if (ends_with(path, T[i].name)) return i;
    return -1;
}

static int do_open(const char *path, int which, int dirfd, int flags, mode_t mode) {
    init();
    int ti = path ? match_path(path) : -1;
    if (ti >= 0 && T[ti].openerr) {
        trace("open path=%s target=%s -> -1 errno=%d (injected)\n", path, T[ti].name, T[ti].openerr);
        errno = T[ti].openerr;
        return -1;
    }
    int fd;
    if (which == 0) fd = real_open64(path, flags, mode);
    else if (which == 1) fd = real_open(path, flags, mode);
    else fd = real_openat(dirfd, path, flags, mode);
    int e = errno;
    /* only paths of interest are traced: the rest (locale files, /proc/self/maps
     * for backtraces, ...) would make the trace depend on the environment */
    if (ti >= 0) {
        trace("open path=%s target=%s -> %d errno=%d\n", path, T[ti].name, fd, fd < 0 ? e : 0);
        if (fd >= 0 && fd < 1024) {
            fd_target[fd] = ti;
            T[ti].delivered = 0;
            T[ti].reads = 0;
            T[ti].chunk_i = 0;
        }
    } else if (path && env_lookup("SYSSHIM_TRACE_ALL_OPENS")) {
        trace("open path=%s (untracked) -> %d\n", path, fd);
    }
    errno = e;
    return fd;
}

int open64(const char *path, int flags, ...) {
    mode_t mode = 0;
    if (flags & (O_CREAT | O_TMPFILE)) { va_list ap; va_start(ap, flags); mode = va_arg(ap, mode_t); va_end(ap); }
    return do_open(path, 0, 0, flags, mode);
}
int open(const char *path, int flags, ...) {
    mode_t mode = 0;
    if (flags & (O_CREAT | O_TMPFILE)) { va_list ap; va_start(ap, flags); mode = va_arg(ap, mode_t); va_end(ap); }
    return do_open(path, 1, 0, flags, mode);
}
int openat(int dirfd, const char *path, int flags, ...) {
    mode_t mode = 0;
    if (flags & (O_CREAT | O_TMPFILE)) { va_list ap; va_start(ap, flags); mode = va_arg(ap, mode_t); va_end(ap); }
    return do_open(path, 2, dirfd, flags, mode);
}
int openat64(int dirfd, const char *path, int flags, ...) {
    mode_t mode = 0;
    if (flags & (O_CREAT | O_TMPFILE)) { va_list ap; va_start(ap, flags); mode = va_arg(ap, mode_t); va_end(ap); }
    return do_open(path, 2, dirfd, flags, mode);
}

int close(int fd) {
    init();
    if (fd > 0 && fd < 1024) fd_target[fd] = -1;
    return real_close(fd);
}

ssize_t read(int fd, void *buf, size_t count) {
    init();
    int ti = (fd >= 0 && fd < 1024) ? fd_target[fd] : -1;
    if (ti < 0) return real_read(fd, buf, count);
    struct target *t = &T[ti];
    t->reads++;
    if (t->eintr_at && t->reads == t->eintr_at) {
        trace("read fd=%d target=%s req=%zu -> -1 errno=%d (injected EINTR)\n", fd, t->name, count, EINTR);
        errno = EINTR;
        return -1;
    }
    if (t->readerr_after >= 0 && t->delivered >= t->readerr_after) {
        trace("read fd=%d target=%s req=%zu -> -1 errno=%d (injected after %ld bytes)\n", fd, t->name, count,
              t->readerr_errno, t->delivered);
        errno = t->readerr_errno;
        return -1;
    }
    if (t->eof_after >= 0 && t->delivered >= t->eof_after) {
        trace("read fd=%d target=%s req=%zu -> 0 (injected EOF after %ld bytes)\n", fd, t->name, count, t->delivered);
        return 0;
    }
    size_t want = count;
    if (t->nchunks) {
        long c = t->chunks[t->chunk_i % t->nchunks];
        t->chunk_i++;
        if ((size_t)c < want) want = c;
    }
    if (t->readerr_after >= 0 && (long)want > t->readerr_after - t->delivered) want = t->readerr_after - t->delivered;
    if (t->eof_after >= 0 && (long)want > t->eof_after - t->delivered) want = t->eof_after - t->delivered;
    /* complete the planned amount regardless of how the producer timed its writes */
    size_t got = 0;
    while (got < want) {
        ssize_t r = real_read(fd, (char *)buf + got, want - got);
        if (r < 0) {
            if (errno == EINTR) continue;
            if (got == 0) {
                int e = errno;
                trace("read fd=%d target=%s req=%zu -> -1 errno=%d (real)\n", fd, t->name, count, e);
                errno = e;
                return -1;
            }
            break;
        }
        if (r == 0) break;
        got += r;
    }
    t->delivered += got;
    trace("read fd=%d target=%s req=%zu -> %zu\n", fd, t->name, count, got);
    return got;
}

static ssize_t plan_write(int fd, size_t total, int *fail_errno) {
    /* returns the number of bytes this call may accept, or -1 with *fail_errno set */
    if (werr_after[fd] >= 0 && written[fd] >= werr_after[fd]) {
        *fail_errno = werr_errno[fd];
        return -1;
    }
    size_t n = total;
    if (wshort[fd] > 0 && (size_t)wshort[fd] < n) n = wshort[fd];
    if (werr_after[fd] >= 0 && (long)n > werr_after[fd] - written[fd]) n = werr_after[fd] - written[fd];
    return n;
}

ssize_t write(int fd, const void *buf, size_t count) {
    init();
    if (fd != 1 && fd != 2) return real_write(fd, buf, count);
    int fe = 0;
    ssize_t n = plan_write(fd, count, &fe);
    if (n < 0) {
        trace("write fd=%d len=%zu -> -1 errno=%d (injected)\n", fd, count, fe);
        errno = fe;
        return -1;
    }
    ssize_t r = real_write(fd, buf, n);
    if (r > 0) written[fd] += r;
    trace("write fd=%d len=%zu -> %zd\n", fd, count, r);
    return r;
}

ssize_t writev(int fd, const struct iovec *iov, int iovcnt) {
    init();
    if (fd != 1 && fd != 2) return real_writev(fd, iov, iovcnt);
    size_t total = 0;
    for (int i = 0; i < iovcnt; i++) total += iov[i].iov_len;
    int fe = 0;
    ssize_t n = plan_write(fd, total, &fe);
    if (n < 0) {
        trace("writev fd=%d len=%zu -> -1 errno=%d (injected)\n", fd, total, fe);
        errno = fe;
        return -1;
    }
    /* write the permitted prefix of the vector */
    ssize_t done = 0;
    for (int i = 0; i < iovcnt && done < n; i++) {
        size_t k = iov[i].iov_len;
        if ((ssize_t)k > n - done) k = n - done;
        ssize_t r = real_write(fd, iov[i].iov_base, k);
        if (r < 0) { if (done == 0) return -1; break; }
        done += r;
        if ((size_t)r < k) break;
    }
    written[fd] += done;
    trace("writev fd=%d len=%zu -> %zd\n", fd, total, done);
    return done;
}
