//! Executors.  `run_p1` executes a history in order with real handle and
//! document slots (re-use, aliasing, drops).  `run_p3` re-evaluates every
//! search of the same history *history-free*: in shuffled order, each one with
//! a freshly compiled expression and a freshly built document.  Both emit
//! (key -> outcome) entries; the invariants are stated over those.

use crate::ops::*;
use crate::world::*;
use jmespath::{Expression, JmespathError, Rcvar, Variable};
use simcore::{avalanche, Hasher64, Rng};
use std::collections::{BTreeMap, BTreeSet, HashMap};
use std::panic::{catch_unwind, AssertUnwindSafe};

/// Always takes the generic serde path, also in a `specialized` build.
pub struct Wrap<T>(pub T);
impl<T: serde::Serialize> serde::Serialize for Wrap<T> {
    fn serialize<S: serde::Serializer>(&self, s: S) -> Result<S::Ok, S::Error> {
        self.0.serialize(s)
    }
}

#[derive(Clone, Debug)]
pub struct Violation {
    pub invariant: &'static str,
    pub detail: String,
    pub op_index: usize,
}

#[derive(Default)]
pub struct Stats {
    pub c: BTreeMap<String, u64>,
    pub shapes: BTreeSet<u64>,
    pub shapes_nontrivial: BTreeSet<u64>,
    /// C17: (input form / type, value class, expression root) triples
    pub triples: BTreeSet<u64>,
    pub triples_special: BTreeSet<u64>,
}

impl Stats {
    pub fn bump(&mut self, k: &str) {
        *self.c.entry(k.to_string()).or_insert(0) += 1;
    }
    pub fn add(&mut self, k: &str, n: u64) {
        *self.c.entry(k.to_string()).or_insert(0) += n;
    }
}

/// Process-wide memory of every call made so far (I2/I4 across histories).
#[derive(Default)]
pub struct Global {
    pub seen: HashMap<u64, (u64, u64, u32)>,
    pub custom_rt_used: bool,
    pub default_rt_used: bool,
}

pub struct Handle {
    pub expr: Expression<'static>,
    pub rt: u8,
    pub text: String,
    pub searches: u32,
    pub is_clone: bool,
}

pub struct Doc {
    pub var: Rcvar,
    pub tainted: bool,
    pub shared: bool,
    pub realloc: bool,
}

#[derive(Default)]
pub struct RunOut {
    pub log_hash: u64,
    pub map_hash: u64,
    pub class_hash: u64,
    pub shape: u64,
    pub nontrivial: bool,
    pub nsearch: u32,
    pub nentries: u32,
    pub violations: Vec<Violation>,
    pub log: Vec<String>,
}

fn hs(s: &str) -> u64 {
    simcore::fnv(s.as_bytes())
}

fn panic_msg(e: Box<dyn std::any::Any + Send>) -> String {
    if let Some(s) = e.downcast_ref::<&str>() {
        s.to_string()
    } else if let Some(s) = e.downcast_ref::<String>() {
        s.clone()
    } else {
        "<non-string panic>".to_string()
    }
}

pub fn err_class(e: &JmespathError) -> String {
    // variant names taken from the Debug rendering, so that a new error variant in the
    // library does not stop this harness from compiling
    let d = format!("{:?}", e.reason);
    let head = |t: &str| -> String { t.chars().take_while(|c| c.is_alphanumeric() || *c == '_').collect() };
    let outer = head(&d);
    if outer == "Runtime" {
        let inner = d.get("Runtime(".len()..).map(head).unwrap_or_default();
        format!("Runtime::{}", inner)
    } else {
        outer
    }
}

fn root_kind(text: &str) -> String {
    match jmespath::parse(text) {
        Err(_) => "invalid".to_string(),
        Ok(ast) => format!("{:?}", ast)
            .chars()
            .take_while(|c| c.is_alphanumeric())
            .collect::<String>()
            .to_lowercase(),
    }
}

fn var_class(v: &Variable) -> &'static str {
    match v {
        Variable::Null => "null",
        Variable::String(_) => "string",
        Variable::Bool(_) => "bool",
        Variable::Number(n) => {
            if n.is_f64() {
                "float"
            } else if n.is_i64() {
                "int"
            } else {
                "uint>i64"
            }
        }
        Variable::Array(_) => "array",
        Variable::Object(_) => "object",
        Variable::Expref(_) => "expref",
    }
}

pub struct Exec<'g> {
    pub world: &'g World,
    pub global: &'g mut Global,
    pub stats: &'g mut Stats,
    pub hist_index: u64,
    pub verbose: bool,
    pub check_mutation: bool,
    out: RunOut,
    keys_in_history: HashMap<u64, u64>,
    log_h: Hasher64,
}

/// The outcome of one search, rendered exactly and at class level.
pub struct Outcome {
    pub exact: String,
    pub class: String,
    pub ok: Option<Rcvar>,
    pub kind: &'static str,
}

fn render(res: std::thread::Result<Result<Rcvar, JmespathError>>) -> Outcome {
    match res {
        Ok(Ok(v)) => Outcome {
            exact: format!("Ok({:?})", v),
            class: format!("ok:{}", v),
            ok: Some(v),
            kind: "ok",
        },
        Ok(Err(e)) => Outcome {
            exact: format!("Err({:?})", e),
            class: format!("err:{}", err_class(&e)),
            ok: None,
            kind: "err",
        },
        Err(p) => {
            let m = panic_msg(p);
            Outcome {
                exact: format!("Panic({})", m),
                class: "panic".to_string(),
                ok: None,
                kind: "panic",
            }
        }
    }
}

fn search_typed(e: &Expression<'static>, t: &Typed, generic: bool) -> Result<Rcvar, JmespathError> {
    macro_rules! go {
        ($v:expr) => {
            if generic {
                e.search(Wrap($v))
            } else {
                e.search($v)
            }
        };
    }
    match t {
        Typed::I8(v) => go!(*v),
        Typed::I16(v) => go!(*v),
        Typed::I32(v) => go!(*v),
        Typed::I64(v) => go!(*v),
        Typed::U8(v) => go!(*v),
        Typed::U16(v) => go!(*v),
        Typed::U32(v) => go!(*v),
        Typed::U64(v) => go!(*v),
        Typed::Isize(v) => go!(*v),
        Typed::Usize(v) => go!(*v),
        Typed::I128(v) => go!(*v),
        Typed::U128(v) => go!(*v),
        Typed::F32(v) => go!(*v),
        Typed::F64(v) => go!(*v),
        Typed::Unit => go!(()),
        Typed::Bool(v) => go!(*v),
        Typed::Str(v) => go!(v.as_str()),
        Typed::String(v) => go!(v.clone()),
    }
}

fn search_doc(e: &Expression<'static>, doc: &Rcvar, form: Form) -> Result<Rcvar, JmespathError> {
    match form {
        Form::Rcvar => e.search(doc.clone()),
        Form::RefRcvar => e.search(doc),
        Form::Var => e.search((**doc).clone()),
        Form::RefVar => e.search(&**doc),
        Form::Value => {
            let v = serde_json::to_value(&**doc).expect("harness: to_value");
            e.search(v)
        }
        Form::RefValue => {
            let v = serde_json::to_value(&**doc).expect("harness: to_value");
            e.search(&v)
        }
        Form::Generic => e.search(Wrap(&**doc)),
    }
}

pub enum RInput<'a> {
    Doc {
        var: &'a Rcvar,
        tainted: bool,
        form: Form,
    },
    Typed(&'a Typed, bool),
}

impl<'g> Exec<'g> {
    pub fn new(
        world: &'g World,
        global: &'g mut Global,
        stats: &'g mut Stats,
        hist_index: u64,
        verbose: bool,
    ) -> Self {
        Exec {
            world,
            global,
            stats,
            hist_index,
            verbose,
            check_mutation: true,
            out: RunOut::default(),
            keys_in_history: HashMap::new(),
            log_h: Hasher64::new(),
        }
    }

    fn logline(&mut self, i: usize, s: String) {
        self.log_h.u64(i as u64).str(&s);
        if self.verbose {
            self.out.log.push(format!("{:3} {}", i, s));
        }
    }

    fn violate(&mut self, invariant: &'static str, op_index: usize, detail: String) {
        if self.out.violations.len() < 8 {
            self.out.violations.push(Violation {
                invariant,
                detail,
                op_index,
            });
        }
    }

    /// Record (key -> outcome); check it against everything this process has
    /// seen (same call => same outcome).
    fn entry(&mut self, i: usize, key: u64, out: u64, class: Option<u64>, what: &str, outcome_text: &str) {
        match self.keys_in_history.get(&key) {
            Some(_) => {}
            None => {
                self.keys_in_history.insert(key, out);
                self.out.map_hash = self
                    .out
                    .map_hash
                    .wrapping_add(avalanche(key ^ out.rotate_left(32)));
                if let Some(c) = class {
                    self.out.class_hash = self
                        .out
                        .class_hash
                        .wrapping_add(avalanche(key ^ c.rotate_left(32)));
                }
                self.out.nentries += 1;
            }
        }
        match self.global.seen.get(&key) {
            Some(&(prev, hidx, opi)) => {
                if prev != out {
                    self.violate(
                        "same-call-same-outcome",
                        i,
                        format!(
                            "{} gave a different outcome than the first time this process made the same call (history #{} op {}): now {}",
                            what, hidx, opi, outcome_text
                        ),
                    );
                }
            }
            None => {
                self.global.seen.insert(key, (out, self.hist_index, i as u32));
            }
        }
    }

    fn do_compile(&mut self, i: usize, rt: u8, text: &str) -> Option<Expression<'static>> {
        if rt == 0 {
            if !self.global.default_rt_used && self.global.custom_rt_used {
                self.stats.bump("probe.default_runtime_first_use_after_custom_runtime");
            }
            self.global.default_rt_used = true;
        } else {
            self.global.custom_rt_used = true;
        }
        let world = self.world;
        let res = catch_unwind(AssertUnwindSafe(|| world.compile(rt, text)));
        let pres = catch_unwind(AssertUnwindSafe(|| jmespath::parse(text)));
        let (dbg, expr) = match res {
            Ok(Ok(e)) => (format!("Ok({:?})", e.as_ast()), Some(e)),
            Ok(Err(e)) => (format!("Err({:?})", e), None),
            Err(p) => (format!("Panic({})", panic_msg(p)), None),
        };
        let pdbg = match pres {
            Ok(r) => format!("{:?}", r),
            Err(p) => format!("Panic({})", panic_msg(p)),
        };
        if dbg != pdbg {
            self.violate(
                "compile-deterministic",
                i,
                format!(
                    "runtime {} compile of {:?} gave {} but parse() gave {}",
                    rt, text, dbg, pdbg
                ),
            );
        }
        let mut kh = Hasher64::new();
        kh.str("C").str(text);
        let short: String = dbg.chars().take(300).collect();
        self.entry(i, kh.finish(), hs(&dbg), Some(compile_class(&dbg)), &format!("compile({:?})", text), &short);
        self.stats.bump(if expr.is_some() { "compile.ok" } else { "compile.err" });
        self.logline(i, format!("compile rt={} {:?} -> {}", rt, text, dbg));
        expr
    }

    /// One search, with fault plan, mutation check and bookkeeping.
    #[allow(clippy::too_many_arguments)]
    fn do_search(
        &mut self,
        i: usize,
        expr: &Expression<'static>,
        rt: u8,
        text: &str,
        input: RInput<'_>,
        plan: Plan,
        watch: &dyn Fn() -> Vec<(String, u64)>,
    ) -> Outcome {
        let (content, tainted, formname, special) = match &input {
            RInput::Doc { var, tainted, form } => (
                format!("{:?}", var),
                *tainted,
                form.name(),
                !matches!(form, Form::Generic),
            ),
            RInput::Typed(t, generic) => (
                t.canon(),
                false,
                if *generic { "generic" } else { t.ty() },
                !*generic,
            ),
        };
        let before = if self.check_mutation { watch() } else { vec![] };
        arm(plan.n, plan.kind);
        let res = catch_unwind(AssertUnwindSafe(|| {
            at_stack_depth(plan.stack_kib, &mut || match &input {
                RInput::Doc { var, form, .. } => search_doc(expr, var, *form),
                RInput::Typed(t, generic) => search_typed(expr, t, *generic),
            })
        }));
        let (fired, calls) = disarm();
        let out = render(res);
        if self.check_mutation {
            let after = watch();
            for (b, a) in before.iter().zip(after.iter()) {
                if b.1 != a.1 {
                    self.violate(
                        "search-does-not-mutate",
                        i,
                        format!(
                            "{} changed while searching {:?} (runtime {}) over {}",
                            b.0, text, rt, content
                        ),
                    );
                    break;
                }
            }
        }
        if plan.n != 0 {
            if fired {
                self.stats
                    .bump(&format!("fault.fired.{}", FAULT_KINDS[plan.kind as usize % 4]));
            } else {
                self.stats.bump("fault.armed_not_reached");
            }
        }
        self.stats.add("fault_fn.invocations", calls as u64);
        self.stats.bump(&format!("search.{}", out.kind));
        if let Some(v) = &out.ok {
            self.stats.bump(&format!("result.{}", var_class(v)));
        }
        self.stats.bump(&format!("form.{}", formname));
        let mut kh = Hasher64::new();
        kh.str("S").u64(rt as u64).str(text).str(&content).u64(plan.n as u64);
        if plan.n != 0 {
            kh.u64(plan.kind as u64);
        }
        if tainted {
            kh.str(formname);
        }
        let key = kh.finish();
        let class = if tainted { None } else { Some(hs(&out.class)) };
        let what = format!(
            "search({:?}, runtime {}, input {} as {}, plan {:?})",
            text, rt, content, formname, plan
        );
        let short: String = out.exact.chars().take(400).collect();
        self.entry(i, key, hs(&out.exact), class, &what, &short);
        self.out.nsearch += 1;
        // C17 coverage measure
        let vc = match &input {
            RInput::Doc { var, .. } => var_class(var),
            RInput::Typed(t, _) => t.ty(),
        };
        let mut th = Hasher64::new();
        th.str(formname).str(vc).str(&root_kind(text));
        let t = th.finish();
        self.stats.triples.insert(t);
        if special {
            self.stats.triples_special.insert(t);
        }
        self.logline(
            i,
            format!(
                "search rt={} {:?} input={} form={} plan={}/{} fired={} calls={} -> {}",
                rt, text, content, formname, plan.n, plan.kind, fired, calls, out.exact
            ),
        );
        out
    }

    // ---------------------------------------------------------------- P1
    pub fn run_p1(mut self, ops: &[Op]) -> RunOut {
        let mut hs_: Vec<Option<Handle>> = (0..H_SLOTS).map(|_| None).collect();
        let mut ds: Vec<Option<Doc>> = (0..D_SLOTS).map(|_| None).collect();
        let mut results: HashMap<u64, (Rcvar, bool)> = HashMap::new();
        let mut kept: Vec<(u64, Rcvar)> = Vec::new();
        let mut shape = Hasher64::new();
        // (handle slot generation, key) of searches, for the non-trivial rule
        let mut trail: Vec<(u64, u64)> = Vec::new();
        let mut gen_of: Vec<u64> = vec![0; H_SLOTS];
        let mut gen_ctr = 0u64;
        let mut last_failed: HashMap<(u64, u64), bool> = HashMap::new();
        let mut dropped_doc_recent = false;
        // Taint ("derived from a value holding an expression reference", i.e. not
        // JSON-representable: excluded from cross-build comparison) must be the same in
        // every build, so it follows the *definitions*, never what happened to resolve:
        // a slot keeps its taint even when its document could not be built.
        let mut ptaint: Vec<bool> = vec![false; D_SLOTS];
        let mut search_taint: HashMap<u64, bool> = HashMap::new();

        for (i, op) in ops.iter().enumerate() {
            self.stats.bump(&format!("op.{}", op.kind()));
            match op {
                Op::Compile { h, rt, text } => {
                    let e = self.do_compile(i, *rt, text);
                    shape.str("c").u64(e.is_some() as u64).u64(*rt as u64);
                    gen_ctr += 1;
                    gen_of[*h % H_SLOTS] = gen_ctr;
                    hs_[*h % H_SLOTS] = e.map(|expr| Handle {
                        expr,
                        rt: *rt,
                        text: text.clone(),
                        searches: 0,
                        is_clone: false,
                    });
                }
                Op::Parse { text } => {
                    let pres = catch_unwind(AssertUnwindSafe(|| jmespath::parse(text)));
                    let pdbg = match pres {
                        Ok(r) => format!("{:?}", r),
                        Err(p) => format!("Panic({})", panic_msg(p)),
                    };
                    let mut kh = Hasher64::new();
                    kh.str("C").str(text);
                    let short: String = pdbg.chars().take(300).collect();
                    self.entry(i, kh.finish(), hs(&pdbg), Some(compile_class(&pdbg)), &format!("parse({:?})", text), &short);
                    shape.str("p");
                    self.logline(i, format!("parse {:?} -> {}", text, pdbg));
                }
                Op::CloneH { from, to } => {
                    let c = hs_[*from % H_SLOTS].as_ref().map(|h| {
                        let e2 = h.expr.clone();
                        // the statement speaks of the tree and of behaviour, not of as_str()
                        let same = format!("{:?}", e2.as_ast()) == format!("{:?}", h.expr.as_ast())
                            && e2.as_ast() == h.expr.as_ast();
                        (
                            Handle {
                                expr: e2,
                                rt: h.rt,
                                text: h.text.clone(),
                                searches: 0,
                                is_clone: true,
                            },
                            same,
                        )
                    });
                    shape.str("k").u64(c.is_some() as u64);
                    match c {
                        Some((h2, same)) => {
                            if !same {
                                self.violate(
                                    "compile-deterministic",
                                    i,
                                    format!("clone of {:?} has a different tree", h2.text),
                                );
                            }
                            self.logline(i, format!("clone {} -> {} ({:?})", from, to, h2.text));
                            gen_ctr += 1;
                            gen_of[*to % H_SLOTS] = gen_ctr;
                            hs_[*to % H_SLOTS] = Some(h2);
                        }
                        None => {
                            self.logline(i, format!("clone {} -> {} skipped", from, to));
                            hs_[*to % H_SLOTS] = None;
                        }
                    }
                }
                Op::DropH { h } => {
                    hs_[*h % H_SLOTS] = None;
                    shape.str("d");
                    self.logline(i, format!("drop h{}", h));
                }
                Op::NewDoc { d, spec } => {
                    let d = *d % D_SLOTS;
                    let pt = match spec {
                        DocSpec::Json(_) | DocSpec::Deep { .. } => false,
                        DocSpec::Compose { parts, .. } => parts.iter().any(|&p| p % D_SLOTS != d && ptaint[p % D_SLOTS]),
                        DocSpec::Sub { of, .. } => *of % D_SLOTS != d && ptaint[*of % D_SLOTS],
                        DocSpec::ResultOf(id) => {
                            search_taint.get(id).copied().unwrap_or(false)
                                || results.get(id).map_or(false, |(_, t)| *t)
                        }
                    };
                    ptaint[d] = pt;
                    let built: Option<Doc> = match spec {
                        DocSpec::Json(t) => match Variable::from_json(t) {
                            Ok(v) => Some(Doc {
                                var: Rcvar::new(v),
                                tainted: false,
                                shared: false,
                                realloc: dropped_doc_recent,
                            }),
                            Err(_) => None,
                        },
                        DocSpec::Compose { obj, parts } => {
                            let ps: Vec<&Doc> = parts
                                .iter()
                                .filter(|&&p| p % D_SLOTS != d)
                                .filter_map(|&p| ds[p % D_SLOTS].as_ref())
                                .collect();
                            if ps.is_empty() {
                                None
                            } else {
                                let var = if *obj {
                                    let mut m = BTreeMap::new();
                                    for (n, p) in ps.iter().enumerate() {
                                        m.insert(KEYNAMES[n % KEYNAMES.len()].to_string(), p.var.clone());
                                    }
                                    Variable::Object(m)
                                } else {
                                    Variable::Array(ps.iter().map(|p| p.var.clone()).collect())
                                };
                                Some(Doc {
                                    var: Rcvar::new(var),
                                    tainted: pt,
                                    shared: true,
                                    realloc: false,
                                })
                            }
                        }
                        DocSpec::Sub { of, idx } => match ds[*of % D_SLOTS].as_ref() {
                            Some(p) if *of % D_SLOTS != d => sub_child(&p.var, *idx).map(|c| Doc {
                                var: Rcvar::new(Variable::Array(vec![c.clone(), c])),
                                tainted: pt,
                                shared: true,
                                realloc: false,
                            }),
                            _ => None,
                        },
                        DocSpec::Deep { depth, obj_every } => Some(Doc {
                            var: deep_doc(*depth, *obj_every),
                            tainted: false,
                            shared: false,
                            realloc: false,
                        }),
                        DocSpec::ResultOf(id) => results.get(id).map(|(v, _)| {
                            self.stats.bump("probe.result_fed_back");
                            Doc {
                                var: v.clone(),
                                tainted: pt,
                                shared: true,
                                realloc: false,
                            }
                        }),
                    };
                    dropped_doc_recent = false;
                    shape.str("n").u64(built.is_some() as u64).u64(match spec {
                        DocSpec::Json(_) => 0,
                        DocSpec::Compose { .. } => 1,
                        DocSpec::Sub { .. } => 2,
                        DocSpec::ResultOf(_) => 3,
                        DocSpec::Deep { .. } => 4,
                    });
                    let txt = match &built {
                        Some(b) => format!("newdoc d{} = {:?} tainted={}", d, b.var, b.tainted),
                        None => format!("newdoc d{} unresolved", d),
                    };
                    self.logline(i, txt);
                    ds[d] = built;
                }
                Op::DropDoc { d } => {
                    ds[*d % D_SLOTS] = None;
                    ptaint[*d % D_SLOTS] = false;
                    dropped_doc_recent = true;
                    shape.str("x");
                    self.logline(i, format!("dropdoc d{}", d));
                }
                Op::Search { id, h, input, plan } => {
                    search_taint.insert(
                        *id,
                        match input {
                            Input::Doc { slot, .. } => ptaint[*slot % D_SLOTS],
                            Input::Typed { .. } => false,
                        },
                    );
                    let hslot = *h % H_SLOTS;
                    let Some(handle) = hs_[hslot].as_ref() else {
                        self.logline(i, format!("search h{} skipped (empty handle)", h));
                        shape.str("s-");
                        continue;
                    };
                    let (rt, text) = (handle.rt, handle.text.clone());
                    let r = self.search_common(
                        i, &handle.expr, rt, &text, input, *plan, &hs_, &ds, &kept,
                    );
                    let Some((out, key, tainted, shared, realloc)) = r else {
                        shape.str("s-");
                        continue;
                    };
                    let hm = hs_[hslot].as_mut().unwrap();
                    let age = hm.searches.min(3);
                    hm.searches += 1;
                    if hm.is_clone {
                        self.stats.bump("probe.search_through_clone");
                    }
                    if shared {
                        self.stats.bump("probe.shared_subtree_searched");
                    }
                    if realloc {
                        self.stats.bump("probe.drop_then_reallocate_searched");
                    }
                    let g = gen_of[hslot];
                    if last_failed.get(&(g, 0)).copied().unwrap_or(false) && out.kind == "ok" {
                        self.stats.bump("probe.handle_reused_after_failed_search");
                    }
                    last_failed.insert((g, 0), out.kind != "ok");
                    // non-trivial: this handle searched before, with a different call in between
                    if let Some(pi) = trail.iter().rposition(|(gg, _)| *gg == g) {
                        if trail[pi + 1..].iter().any(|(_, k)| *k != key) || trail[pi].1 != key {
                            self.out.nontrivial = true;
                        }
                    }
                    trail.push((g, key));
                    shape.str("s").u64(age as u64).str(out.kind).u64((plan.n != 0) as u64);
                    if let Some(v) = out.ok {
                        let t = tainted || contains_expref(&v);
                        results.insert(*id, (v.clone(), t));
                        kept.push((*id, v));
                        if kept.len() > 4 {
                            kept.remove(0);
                        }
                    }
                }
                Op::SearchFresh { id, rt, text, input, plan } => {
                    search_taint.insert(
                        *id,
                        match input {
                            Input::Doc { slot, .. } => ptaint[*slot % D_SLOTS],
                            Input::Typed { .. } => false,
                        },
                    );
                    let Some(expr) = self.do_compile(i, *rt, text) else {
                        shape.str("f-");
                        continue;
                    };
                    let r = self.search_common(i, &expr, *rt, text, input, *plan, &hs_, &ds, &kept);
                    let Some((out, key, tainted, _, _)) = r else {
                        shape.str("f-");
                        continue;
                    };
                    if trail.iter().any(|(_, k)| *k == key) {
                        self.stats.bump("probe.fresh_compile_repeats_earlier_call");
                        self.out.nontrivial = true;
                    }
                    trail.push((u64::MAX, key));
                    shape.str("f").str(out.kind).u64((plan.n != 0) as u64);
                    if let Some(v) = out.ok {
                        let t = tainted || contains_expref(&v);
                        results.insert(*id, (v.clone(), t));
                        kept.push((*id, v));
                        if kept.len() > 4 {
                            kept.remove(0);
                        }
                    }
                }
            }
        }
        self.out.shape = shape.finish();
        self.out.log_hash = self.log_h.finish();
        self.stats.shapes.insert(self.out.shape);
        if self.out.nontrivial {
            self.stats.shapes_nontrivial.insert(self.out.shape);
        }
        self.out
    }

    #[allow(clippy::too_many_arguments)]
    fn search_common(
        &mut self,
        i: usize,
        expr: &Expression<'static>,
        rt: u8,
        text: &str,
        input: &Input,
        plan: Plan,
        hs_: &[Option<Handle>],
        ds: &[Option<Doc>],
        kept: &[(u64, Rcvar)],
    ) -> Option<(Outcome, u64, bool, bool, bool)> {
        let watch = || -> Vec<(String, u64)> {
            let mut v = Vec::new();
            for (n, d) in ds.iter().enumerate() {
                if let Some(d) = d {
                    v.push((format!("document d{}", n), hs(&format!("{:?}", d.var))));
                }
            }
            for (id, r) in kept.iter() {
                v.push((format!("earlier result #{}", id), hs(&format!("{:?}", r))));
            }
            for (n, h) in hs_.iter().enumerate() {
                if let Some(h) = h {
                    v.push((
                        format!("tree/literals of handle h{} ({:?})", n, h.text),
                        hs(&format!("{:?}", h.expr.as_ast())),
                    ));
                }
            }
            v
        };
        let (rin, tainted, shared, realloc) = match input {
            Input::Doc { slot, form } => match ds[*slot % D_SLOTS].as_ref() {
                Some(d) => (
                    RInput::Doc {
                        var: &d.var,
                        tainted: d.tainted,
                        form: *form,
                    },
                    d.tainted,
                    d.shared,
                    d.realloc,
                ),
                None => {
                    self.logline(i, format!("search skipped (empty doc slot {})", slot));
                    return None;
                }
            },
            Input::Typed { val, generic } => (RInput::Typed(val, *generic), false, false, false),
        };
        let content_key = {
            let mut kh = Hasher64::new();
            match &rin {
                RInput::Doc { var, .. } => kh.str(&format!("{:?}", var)),
                RInput::Typed(t, _) => kh.str(&t.canon()),
            };
            kh.u64(rt as u64).str(text).u64(plan.n as u64).u64(plan.kind as u64);
            kh.finish()
        };
        let out = self.do_search(i, expr, rt, text, rin, plan, &watch);
        Some((out, content_key, tainted, shared, realloc))
    }

    // ---------------------------------------------------------------- P3
    /// History-free re-evaluation.  `order_seed` shuffles the searches.
    pub fn run_p3(mut self, ops: &[Op], order_seed: u64) -> RunOut {
        self.check_mutation = false;
        // static pre-pass: bind slots to definitions exactly as P1 would
        #[derive(Clone)]
        enum DDef {
            Json(String),
            Compose { obj: bool, parts: Vec<usize> },
            Sub { of: usize, idx: usize },
            ResultOf(u64),
            Deep { depth: usize, obj_every: usize },
        }
        struct SDef {
            i: usize,
            rt: u8,
            text: String,
            input: SIn,
            plan: Plan,
        }
        #[derive(Clone)]
        enum SIn {
            Doc { did: usize, form: Form },
            Typed(Typed, bool),
        }
        let mut ddefs: Vec<DDef> = Vec::new();
        let mut sdefs: Vec<SDef> = Vec::new();
        let mut by_id: HashMap<u64, usize> = HashMap::new();
        // input document definition of EVERY search op (also of those that P1 skips),
        // for the build-independent taint rule
        let mut search_src: HashMap<u64, Option<usize>> = HashMap::new();
        let mut hslot: Vec<Option<(u8, String)>> = vec![None; H_SLOTS];
        let mut dslot: Vec<Option<usize>> = vec![None; D_SLOTS];
        let mut compiles: Vec<(usize, u8, String)> = Vec::new();
        let mut parses: Vec<(usize, String)> = Vec::new();
        for (i, op) in ops.iter().enumerate() {
            match op {
                Op::Compile { h, rt, text } => {
                    compiles.push((i, *rt, text.clone()));
                    hslot[*h % H_SLOTS] = Some((*rt, text.clone()));
                }
                Op::Parse { text } => parses.push((i, text.clone())),
                Op::CloneH { from, to } => hslot[*to % H_SLOTS] = hslot[*from % H_SLOTS].clone(),
                Op::DropH { h } => hslot[*h % H_SLOTS] = None,
                Op::NewDoc { d, spec } => {
                    let d = *d % D_SLOTS;
                    let def = match spec {
                        DocSpec::Json(t) => Some(DDef::Json(t.clone())),
                        DocSpec::Compose { obj, parts } => {
                            let ps: Vec<usize> = parts
                                .iter()
                                .filter(|&&p| p % D_SLOTS != d)
                                .filter_map(|&p| dslot[p % D_SLOTS])
                                .collect();
                            // NB: P1 drops parts whose slot is empty *or unresolved*;
                            // unresolved parts are handled at build time (see build()).
                            if ps.is_empty() {
                                None
                            } else {
                                Some(DDef::Compose { obj: *obj, parts: ps })
                            }
                        }
                        DocSpec::Sub { of, idx } => match dslot[*of % D_SLOTS] {
                            Some(p) if *of % D_SLOTS != d => Some(DDef::Sub { of: p, idx: *idx }),
                            _ => None,
                        },
                        DocSpec::ResultOf(id) => Some(DDef::ResultOf(*id)),
                        DocSpec::Deep { depth, obj_every } => Some(DDef::Deep {
                            depth: *depth,
                            obj_every: *obj_every,
                        }),
                    };
                    dslot[d] = def.map(|df| {
                        ddefs.push(df);
                        ddefs.len() - 1
                    });
                }
                Op::DropDoc { d } => dslot[*d % D_SLOTS] = None,
                Op::Search { id, h, input, plan } => {
                    search_src.insert(
                        *id,
                        match input {
                            Input::Doc { slot, .. } => dslot[*slot % D_SLOTS],
                            Input::Typed { .. } => None,
                        },
                    );
                    if let Some((rt, text)) = hslot[*h % H_SLOTS].clone() {
                        let sin = match input {
                            Input::Doc { slot, form } => match dslot[*slot % D_SLOTS] {
                                Some(did) => SIn::Doc { did, form: *form },
                                None => continue,
                            },
                            Input::Typed { val, generic } => SIn::Typed(val.clone(), *generic),
                        };
                        by_id.insert(*id, sdefs.len());
                        sdefs.push(SDef {
                            i,
                            rt,
                            text,
                            input: sin,
                            plan: *plan,
                        });
                    }
                }
                Op::SearchFresh { id, rt, text, input, plan } => {
                    search_src.insert(
                        *id,
                        match input {
                            Input::Doc { slot, .. } => dslot[*slot % D_SLOTS],
                            Input::Typed { .. } => None,
                        },
                    );
                    compiles.push((i, *rt, text.clone()));
                    let sin = match input {
                        Input::Doc { slot, form } => match dslot[*slot % D_SLOTS] {
                            Some(did) => SIn::Doc { did, form: *form },
                            None => continue,
                        },
                        Input::Typed { val, generic } => SIn::Typed(val.clone(), *generic),
                    };
                    by_id.insert(*id, sdefs.len());
                    sdefs.push(SDef {
                        i,
                        rt: *rt,
                        text: text.clone(),
                        input: sin,
                        plan: *plan,
                    });
                }
            }
        }

        // Build a document from its definition, from scratch.  Returns the
        // value and whether it is tainted (holds an expref somewhere in its
        // derivation).  `quiet` evaluations (feeding searches) record nothing.
        struct B<'a> {
            ddefs: &'a [DDef],
            sdefs: &'a [SDef],
            by_id: &'a HashMap<u64, usize>,
            search_src: &'a HashMap<u64, Option<usize>>,
            taint_memo: std::cell::RefCell<HashMap<usize, bool>>,
            world: &'a World,
        }
        impl<'a> B<'a> {
            /// Same rule as P1's `ptaint`: follows the definitions, so that it is the
            /// same in every build and whether or not a part could be built.
            fn taint(&self, did: usize, depth: u32) -> bool {
                if depth > 14 {
                    return false;
                }
                if let Some(t) = self.taint_memo.borrow().get(&did) {
                    return *t;
                }
                let t = match &self.ddefs[did] {
                    DDef::Json(_) | DDef::Deep { .. } => false,
                    DDef::Compose { parts, .. } => parts.iter().any(|&p| self.taint(p, depth + 1)),
                    DDef::Sub { of, .. } => self.taint(*of, depth + 1),
                    DDef::ResultOf(id) => {
                        let stat = match self.search_src.get(id) {
                            Some(Some(d)) => self.taint(*d, depth + 1),
                            _ => false,
                        };
                        stat || match self.by_id.get(id) {
                            Some(&si) => match self.eval_quiet(&self.sdefs[si], depth + 1) {
                                Some((Some(v), _)) => contains_expref(&v),
                                _ => false,
                            },
                            None => false,
                        }
                    }
                };
                self.taint_memo.borrow_mut().insert(did, t);
                t
            }
            fn build(&self, did: usize, depth: u32) -> Option<(Rcvar, bool)> {
                self.build_inner(did, depth).map(|(v, _)| (v, self.taint(did, depth)))
            }
            fn build_inner(&self, did: usize, depth: u32) -> Option<(Rcvar, bool)> {
                if depth > 12 {
                    return None;
                }
                match &self.ddefs[did] {
                    DDef::Json(t) => Variable::from_json(t).ok().map(|v| (Rcvar::new(v), false)),
                    DDef::Compose { obj, parts } => {
                        let ps: Vec<(Rcvar, bool)> =
                            parts.iter().filter_map(|&p| self.build(p, depth + 1)).collect();
                        if ps.is_empty() {
                            return None;
                        }
                        let tainted = ps.iter().any(|p| p.1);
                        let var = if *obj {
                            let mut m = BTreeMap::new();
                            for (n, p) in ps.iter().enumerate() {
                                m.insert(KEYNAMES[n % KEYNAMES.len()].to_string(), p.0.clone());
                            }
                            Variable::Object(m)
                        } else {
                            Variable::Array(ps.iter().map(|p| p.0.clone()).collect())
                        };
                        Some((Rcvar::new(var), tainted))
                    }
                    DDef::Sub { of, idx } => {
                        let (p, t) = self.build(*of, depth + 1)?;
                        sub_child(&p, *idx).map(|c| (Rcvar::new(Variable::Array(vec![c.clone(), c])), t))
                    }
                    DDef::Deep { depth, obj_every } => Some((deep_doc(*depth, *obj_every), false)),
                    DDef::ResultOf(id) => {
                        let s = &self.sdefs[*self.by_id.get(id)?];
                        let (res, t) = self.eval_quiet(s, depth + 1)?;
                        res.map(|v| {
                            let tt = t || contains_expref(&v);
                            (v, tt)
                        })
                    }
                }
            }
            fn eval_quiet(&self, s: &SDef, depth: u32) -> Option<(Option<Rcvar>, bool)> {
                let expr = catch_unwind(AssertUnwindSafe(|| self.world.compile(s.rt, &s.text)))
                    .ok()?
                    .ok()?;
                match &s.input {
                    SIn::Doc { did, form } => {
                        let (doc, t) = self.build(*did, depth)?;
                        arm(s.plan.n, s.plan.kind);
                        let r = catch_unwind(AssertUnwindSafe(|| search_doc(&expr, &doc, *form)));
                        disarm();
                        Some((r.ok().and_then(|x| x.ok()), t))
                    }
                    SIn::Typed(tv, generic) => {
                        arm(s.plan.n, s.plan.kind);
                        let r = catch_unwind(AssertUnwindSafe(|| search_typed(&expr, tv, *generic)));
                        disarm();
                        Some((r.ok().and_then(|x| x.ok()), false))
                    }
                }
            }
        }

        // NB: a Compose part that P1 found *unresolved at that time* is dropped
        // there as well (slot empty), so both sides agree.
        let world = self.world;
        let mut r = Rng::new(order_seed);
        // compile / parse entries, shuffled
        let mut cp: Vec<(usize, Option<u8>, String)> = compiles
            .into_iter()
            .map(|(i, rt, t)| (i, Some(rt), t))
            .chain(parses.into_iter().map(|(i, t)| (i, None, t)))
            .collect();
        r.shuffle(&mut cp);
        let mut order: Vec<usize> = (0..sdefs.len()).collect();
        r.shuffle(&mut order);
        // interleave: searches first half, compiles, rest (any order is legal)
        let split = if order.is_empty() { 0 } else { r.below(order.len() + 1) };
        let b = B {
            ddefs: &ddefs,
            sdefs: &sdefs,
            by_id: &by_id,
            search_src: &search_src,
            taint_memo: std::cell::RefCell::new(HashMap::new()),
            world,
        };
        let run_search = |this: &mut Self, si: usize| {
            let s = &sdefs[si];
            let Some(expr) = this.do_compile_quiet(s.rt, &s.text) else {
                return;
            };
            let no_watch = || Vec::new();
            match &s.input {
                SIn::Doc { did, form } => {
                    if let Some((doc, t)) = b.build(*did, 0) {
                        this.do_search(
                            s.i,
                            &expr,
                            s.rt,
                            &s.text,
                            RInput::Doc {
                                var: &doc,
                                tainted: t,
                                form: *form,
                            },
                            Plan { stack_kib: 0, ..s.plan },
                            &no_watch,
                        );
                    }
                }
                SIn::Typed(tv, generic) => {
                    this.do_search(s.i, &expr, s.rt, &s.text, RInput::Typed(tv, *generic), Plan { stack_kib: 0, ..s.plan }, &no_watch);
                }
            }
        };
        for &si in &order[..split] {
            run_search(&mut self, si);
        }
        for (i, rt, text) in cp {
            match rt {
                Some(rt) => {
                    self.do_compile(i, rt, &text);
                }
                None => {
                    let pres = catch_unwind(AssertUnwindSafe(|| jmespath::parse(&text)));
                    let pdbg = match pres {
                        Ok(r) => format!("{:?}", r),
                        Err(p) => format!("Panic({})", panic_msg(p)),
                    };
                    let mut kh = Hasher64::new();
                    kh.str("C").str(&text);
                    let short: String = pdbg.chars().take(300).collect();
                    self.entry(i, kh.finish(), hs(&pdbg), Some(compile_class(&pdbg)), &format!("parse({:?})", text), &short);
                }
            }
        }
        for &si in &order[split..] {
            run_search(&mut self, si);
        }
        self.out.log_hash = self.log_h.finish();
        self.out
    }

    fn do_compile_quiet(&mut self, rt: u8, text: &str) -> Option<Expression<'static>> {
        let world = self.world;
        catch_unwind(AssertUnwindSafe(|| world.compile(rt, text)))
            .ok()
            .and_then(|r| r.ok())
    }
}

/// Runs `f` after descending roughly `kib` KiB further into the stack (the main thread
/// has 8 MiB): where on its stack a caller happens to be is not part of a call.
#[inline(never)]
pub fn at_stack_depth<T>(kib: u32, f: &mut dyn FnMut() -> T) -> T {
    if kib == 0 {
        return f();
    }
    let pad = [0u8; 16 * 1024];
    let r = at_stack_depth(kib.saturating_sub(16), f);
    std::hint::black_box(&pad);
    r
}

/// Class-level view of a compile outcome: the full tree when it compiled,
/// only "did not compile" otherwise (messages are not part of the class).
fn compile_class(dbg: &str) -> u64 {
    if dbg.starts_with("Ok(") {
        hs(dbg)
    } else if dbg.starts_with("Err(") {
        hs("Err")
    } else {
        hs("Panic")
    }
}

/// `depth` nested containers around the number 7, built bottom-up (no recursion).
pub fn deep_doc(depth: usize, obj_every: usize) -> Rcvar {
    let mut v = Rcvar::new(Variable::Number(serde_json::Number::from(7)));
    for level in 0..depth.min(400) {
        v = if obj_every != 0 && level % obj_every == obj_every - 1 {
            let mut m = BTreeMap::new();
            m.insert("a".to_string(), v);
            Rcvar::new(Variable::Object(m))
        } else {
            Rcvar::new(Variable::Array(vec![v]))
        };
    }
    v
}

const KEYNAMES: &[&str] = &["a", "b", "xs", "c"];

fn sub_child(v: &Rcvar, idx: usize) -> Option<Rcvar> {
    match &**v {
        Variable::Array(a) if !a.is_empty() => Some(a[idx % a.len()].clone()),
        Variable::Object(m) if !m.is_empty() => m.values().nth(idx % m.len()).cloned(),
        _ => None,
    }
}
