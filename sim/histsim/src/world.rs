//! The world a history runs in: three runtimes (default, builtins+fault
//! functions, fault functions only) and the fault plan consulted by the
//! fault functions.  All SUT code is real; only the registered fault
//! functions belong to the simulator.

use jmespath::functions::{ArgumentType, CustomFunction, Signature};
use jmespath::{Context, ErrorReason, JmespathError, Rcvar, Runtime, RuntimeError, Variable};
use std::collections::BTreeMap;
use std::sync::atomic::{AtomicU32, AtomicU64, Ordering::Relaxed};

pub static PLAN_N: AtomicU32 = AtomicU32::new(0);
pub static PLAN_KIND: AtomicU32 = AtomicU32::new(0);
/// invocations of fault functions during the current search
pub static CALLS: AtomicU32 = AtomicU32::new(0);
/// 1 if the planned fault was reached during the current search
pub static FIRED: AtomicU32 = AtomicU32::new(0);
/// total invocations (evidence)
pub static TOTAL_CALLS: AtomicU64 = AtomicU64::new(0);

pub fn deep_copy(v: &Rcvar) -> Rcvar {
    Rcvar::new(match &**v {
        Variable::Array(a) => Variable::Array(a.iter().map(deep_copy).collect()),
        Variable::Object(m) => Variable::Object(
            m.iter()
                .map(|(k, v)| (k.clone(), deep_copy(v)))
                .collect::<BTreeMap<_, _>>(),
        ),
        other => other.clone(),
    })
}

fn fault_point(args: &[Rcvar], ctx: &mut Context<'_>, tick: bool) -> Result<Rcvar, JmespathError> {
    TOTAL_CALLS.fetch_add(1, Relaxed);
    let c = CALLS.fetch_add(1, Relaxed) + 1;
    let arg = args
        .get(0)
        .cloned()
        .unwrap_or_else(|| Rcvar::new(Variable::Null));
    if tick {
        // legal through the public Context: a function may move the error cursor
        ctx.offset = ctx.offset.wrapping_add(1) % 7;
    }
    let n = PLAN_N.load(Relaxed);
    if n != 0 && c == n {
        FIRED.store(1, Relaxed);
        match PLAN_KIND.load(Relaxed) {
            0 => {
                return Err(JmespathError::from_ctx(
                    ctx,
                    ErrorReason::Runtime(RuntimeError::InvalidType {
                        expected: "injected".to_owned(),
                        actual: arg.get_type().to_string(),
                        position: c as usize,
                    }),
                ))
            }
            1 => {
                return Err(JmespathError::new(
                    "injected\nfault",
                    9,
                    ErrorReason::Parse(format!("injected fault at invocation {}", c)),
                ))
            }
            2 => {
                ctx.offset = 4242;
                return Ok(arg);
            }
            _ => return Ok(deep_copy(&arg)),
        }
    }
    Ok(arg)
}

fn register_fault_fns(rt: &mut Runtime) {
    rt.register_function(
        "vfail",
        Box::new(|args: &[Rcvar], ctx: &mut Context<'_>| fault_point(args, ctx, false)),
    );
    rt.register_function(
        "vtick",
        Box::new(|args: &[Rcvar], ctx: &mut Context<'_>| fault_point(args, ctx, true)),
    );
    rt.register_function(
        "vnew",
        Box::new(CustomFunction::new(
            Signature::new(vec![ArgumentType::Any], None),
            Box::new(|args: &[Rcvar], ctx: &mut Context<'_>| {
                fault_point(args, ctx, false).map(|v| deep_copy(&v))
            }),
        )),
    );
}

pub struct World {
    pub r1: &'static Runtime,
    pub r2: &'static Runtime,
}

impl World {
    /// Builds the two custom runtimes.  Does NOT touch DEFAULT_RUNTIME: its
    /// first use happens wherever the first history first asks for it.
    pub fn new() -> World {
        let mut r1 = Runtime::new();
        r1.register_builtin_functions();
        register_fault_fns(&mut r1);
        let mut r2 = Runtime::new();
        register_fault_fns(&mut r2);
        // r2 gives some built-in *names* a different meaning: a cache keyed by
        // expression text alone would mix the two runtimes up.
        r2.register_function(
            "abs",
            Box::new(|_: &[Rcvar], _: &mut Context<'_>| {
                Ok(Rcvar::new(Variable::String("r2-abs".to_owned())))
            }),
        );
        r2.register_function(
            "length",
            Box::new(CustomFunction::new(
                Signature::new(vec![ArgumentType::Any], None),
                Box::new(|_: &[Rcvar], _: &mut Context<'_>| {
                    Ok(Rcvar::new(Variable::Number(serde_json::Number::from(42))))
                }),
            )),
        );
        r2.register_function("type", Box::new(jmespath::functions::TypeFn::new()));
        r2.register_function("keys", Box::new(jmespath::functions::KeysFn::new()));
        World {
            r1: Box::leak(Box::new(r1)),
            r2: Box::leak(Box::new(r2)),
        }
    }

    pub fn compile(
        &self,
        rt: u8,
        text: &str,
    ) -> Result<jmespath::Expression<'static>, JmespathError> {
        match rt {
            0 => jmespath::compile(text),
            1 => self.r1.compile(text),
            _ => self.r2.compile(text),
        }
    }
}

pub fn arm(n: u32, kind: u8) {
    PLAN_N.store(n, Relaxed);
    PLAN_KIND.store(kind as u32, Relaxed);
    CALLS.store(0, Relaxed);
    FIRED.store(0, Relaxed);
}

pub fn disarm() -> (bool, u32) {
    let fired = FIRED.load(Relaxed) == 1;
    let calls = CALLS.load(Relaxed);
    PLAN_N.store(0, Relaxed);
    (fired, calls)
}

pub fn contains_expref(v: &Variable) -> bool {
    match v {
        Variable::Expref(_) => true,
        Variable::Array(a) => a.iter().any(|x| contains_expref(x)),
        Variable::Object(m) => m.values().any(|x| contains_expref(x)),
        _ => false,
    }
}
