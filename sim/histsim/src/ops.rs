//! Operation vocabulary of a call history, and its JSON form (replay files).

use serde_json::{json, Value};

#[derive(Clone, Debug, PartialEq)]
pub enum DocSpec {
    /// parse this JSON text into a fresh value
    Json(String),
    /// new array / object whose members are Rc clones of other live documents
    Compose { obj: bool, parts: Vec<usize> },
    /// new array holding two Rc clones of the idx-th child of another document
    Sub { of: usize, idx: usize },
    /// the (successful) result of an earlier search, handed back as input
    ResultOf(u64),
    /// built directly (no JSON parser, whose depth limit is 128): `depth` nested
    /// arrays, with an object wrapper {"a": ..} every `obj_every` levels (0: never)
    Deep { depth: usize, obj_every: usize },
}

#[derive(Clone, Copy, Debug, PartialEq, Eq)]
pub enum Form {
    Rcvar,
    RefRcvar,
    Var,
    RefVar,
    Value,
    RefValue,
    /// through a newtype wrapper, which always takes the generic serde path
    Generic,
}

pub const FORMS: &[Form] = &[
    Form::Rcvar,
    Form::RefRcvar,
    Form::Var,
    Form::RefVar,
    Form::Value,
    Form::RefValue,
    Form::Generic,
];

impl Form {
    pub fn name(self) -> &'static str {
        match self {
            Form::Rcvar => "rcvar",
            Form::RefRcvar => "&rcvar",
            Form::Var => "variable",
            Form::RefVar => "&variable",
            Form::Value => "value",
            Form::RefValue => "&value",
            Form::Generic => "generic",
        }
    }
    pub fn from_name(s: &str) -> Option<Form> {
        FORMS.iter().copied().find(|f| f.name() == s)
    }
}

/// Typed scalar inputs: one per specialised `ToJmespath` impl.
#[derive(Clone, Debug, PartialEq)]
pub enum Typed {
    I8(i8),
    I16(i16),
    I32(i32),
    I64(i64),
    U8(u8),
    U16(u16),
    U32(u32),
    U64(u64),
    Isize(isize),
    Usize(usize),
    I128(i128),
    U128(u128),
    F32(f32),
    F64(f64),
    Unit,
    Bool(bool),
    Str(String),
    String(String),
}

impl Typed {
    pub fn ty(&self) -> &'static str {
        match self {
            Typed::I8(_) => "i8",
            Typed::I16(_) => "i16",
            Typed::I32(_) => "i32",
            Typed::I64(_) => "i64",
            Typed::U8(_) => "u8",
            Typed::U16(_) => "u16",
            Typed::U32(_) => "u32",
            Typed::U64(_) => "u64",
            Typed::Isize(_) => "isize",
            Typed::Usize(_) => "usize",
            Typed::I128(_) => "i128",
            Typed::U128(_) => "u128",
            Typed::F32(_) => "f32",
            Typed::F64(_) => "f64",
            Typed::Unit => "unit",
            Typed::Bool(_) => "bool",
            Typed::Str(_) => "&str",
            Typed::String(_) => "string",
        }
    }
    /// value as text (exact, round-trips)
    pub fn val(&self) -> String {
        match self {
            Typed::I8(v) => v.to_string(),
            Typed::I16(v) => v.to_string(),
            Typed::I32(v) => v.to_string(),
            Typed::I64(v) => v.to_string(),
            Typed::U8(v) => v.to_string(),
            Typed::U16(v) => v.to_string(),
            Typed::U32(v) => v.to_string(),
            Typed::U64(v) => v.to_string(),
            Typed::Isize(v) => v.to_string(),
            Typed::Usize(v) => v.to_string(),
            Typed::I128(v) => v.to_string(),
            Typed::U128(v) => v.to_string(),
            Typed::F32(v) => format!("{:?}", v),
            Typed::F64(v) => format!("{:?}", v),
            Typed::Unit => "()".into(),
            Typed::Bool(v) => v.to_string(),
            Typed::Str(v) => v.clone(),
            Typed::String(v) => v.clone(),
        }
    }
    /// Canonical, width-erased content used in the "same call" key: all
    /// integer widths holding 5 are the same JSON number 5.
    pub fn canon(&self) -> String {
        match self {
            Typed::F32(v) => format!("T:f:{:?}", *v as f64),
            Typed::F64(v) => format!("T:f:{:?}", v),
            Typed::Unit => "T:null".into(),
            Typed::Bool(v) => format!("T:b:{}", v),
            Typed::Str(v) | Typed::String(v) => format!("T:s:{}", v),
            // 128-bit integers are their own kind of input: the serde bridge refuses them
            // whatever their value, so they must not share a key with the other widths
            Typed::I128(v) => format!("T:i128:{}", v),
            Typed::U128(v) => format!("T:u128:{}", v),
            other => format!("T:i:{}", other.val()),
        }
    }
    pub fn parse(ty: &str, v: &str) -> Option<Typed> {
        Some(match ty {
            "i8" => Typed::I8(v.parse().ok()?),
            "i16" => Typed::I16(v.parse().ok()?),
            "i32" => Typed::I32(v.parse().ok()?),
            "i64" => Typed::I64(v.parse().ok()?),
            "u8" => Typed::U8(v.parse().ok()?),
            "u16" => Typed::U16(v.parse().ok()?),
            "u32" => Typed::U32(v.parse().ok()?),
            "u64" => Typed::U64(v.parse().ok()?),
            "isize" => Typed::Isize(v.parse().ok()?),
            "usize" => Typed::Usize(v.parse().ok()?),
            "i128" => Typed::I128(v.parse().ok()?),
            "u128" => Typed::U128(v.parse().ok()?),
            "f32" => Typed::F32(v.parse().ok()?),
            "f64" => Typed::F64(v.parse().ok()?),
            "unit" => Typed::Unit,
            "bool" => Typed::Bool(v.parse().ok()?),
            "&str" => Typed::Str(v.to_string()),
            "string" => Typed::String(v.to_string()),
            _ => return None,
        })
    }
}

#[derive(Clone, Debug, PartialEq)]
pub enum Input {
    Doc { slot: usize, form: Form },
    /// `generic`: pass through the newtype wrapper (generic serde path)
    Typed { val: Typed, generic: bool },
}

/// Fault plan for one search: the n-th invocation (1-based) of any fault
/// function during this search performs `kind`.  n == 0: no fault.
#[derive(Clone, Copy, Debug, PartialEq, Eq, Default)]
pub struct Plan {
    pub n: u32,
    pub kind: u8,
    /// make the call from this many KiB deeper in the caller's stack (0: as is)
    pub stack_kib: u32,
}

pub const FAULT_KINDS: &[&str] = &[
    "runtime_error_from_ctx",
    "parse_error_foreign_expr",
    "scramble_ctx_offset",
    "return_fresh_copy",
];

#[derive(Clone, Debug, PartialEq)]
pub enum Op {
    Compile { h: usize, rt: u8, text: String },
    Parse { text: String },
    CloneH { from: usize, to: usize },
    DropH { h: usize },
    NewDoc { d: usize, spec: DocSpec },
    DropDoc { d: usize },
    Search { id: u64, h: usize, input: Input, plan: Plan },
    SearchFresh { id: u64, rt: u8, text: String, input: Input, plan: Plan },
}

impl Op {
    pub fn kind(&self) -> &'static str {
        match self {
            Op::Compile { .. } => "compile",
            Op::Parse { .. } => "parse",
            Op::CloneH { .. } => "clone",
            Op::DropH { .. } => "drop",
            Op::NewDoc { .. } => "newdoc",
            Op::DropDoc { .. } => "dropdoc",
            Op::Search { .. } => "search",
            Op::SearchFresh { .. } => "searchfresh",
        }
    }
}

fn input_json(i: &Input) -> Value {
    match i {
        Input::Doc { slot, form } => json!({"doc": slot, "form": form.name()}),
        Input::Typed { val: t, generic } => json!({"typed": t.ty(), "val": t.val(), "generic": generic}),
    }
}

fn plan_json(p: &Plan) -> Value {
    if p.n == 0 && p.stack_kib == 0 {
        Value::Null
    } else if p.n == 0 {
        json!({"n": 0, "kind": 0, "stack_kib": p.stack_kib})
    } else {
        json!({"n": p.n, "kind": p.kind, "kind_name": FAULT_KINDS[p.kind as usize % FAULT_KINDS.len()], "stack_kib": p.stack_kib})
    }
}

pub fn op_to_json(op: &Op) -> Value {
    match op {
        Op::Compile { h, rt, text } => json!({"op":"compile","h":h,"rt":rt,"text":text}),
        Op::Parse { text } => json!({"op":"parse","text":text}),
        Op::CloneH { from, to } => json!({"op":"clone","from":from,"to":to}),
        Op::DropH { h } => json!({"op":"drop","h":h}),
        Op::NewDoc { d, spec } => {
            let s = match spec {
                DocSpec::Json(t) => json!({"json": t}),
                DocSpec::Compose { obj, parts } => json!({"compose": parts, "obj": obj}),
                DocSpec::Sub { of, idx } => json!({"sub_of": of, "idx": idx}),
                DocSpec::ResultOf(id) => json!({"result_of": id}),
                DocSpec::Deep { depth, obj_every } => json!({"deep": depth, "obj_every": obj_every}),
            };
            json!({"op":"newdoc","d":d,"spec":s})
        }
        Op::DropDoc { d } => json!({"op":"dropdoc","d":d}),
        Op::Search { id, h, input, plan } => {
            json!({"op":"search","id":id,"h":h,"input":input_json(input),"plan":plan_json(plan)})
        }
        Op::SearchFresh { id, rt, text, input, plan } => {
            json!({"op":"searchfresh","id":id,"rt":rt,"text":text,"input":input_json(input),"plan":plan_json(plan)})
        }
    }
}

fn us(v: &Value, k: &str) -> Result<usize, String> {
    v.get(k)
        .and_then(|x| x.as_u64())
        .map(|x| x as usize)
        .ok_or_else(|| format!("missing/invalid field {} in {}", k, v))
}
fn st(v: &Value, k: &str) -> Result<String, String> {
    v.get(k)
        .and_then(|x| x.as_str())
        .map(|x| x.to_string())
        .ok_or_else(|| format!("missing/invalid field {} in {}", k, v))
}

fn input_from(v: &Value) -> Result<Input, String> {
    let i = v.get("input").ok_or("missing input")?;
    if let Some(t) = i.get("typed").and_then(|x| x.as_str()) {
        let val = st(i, "val")?;
        let generic = i.get("generic").and_then(|x| x.as_bool()).unwrap_or(false);
        Typed::parse(t, &val)
            .map(|val| Input::Typed { val, generic })
            .ok_or_else(|| format!("bad typed input {}", i))
    } else {
        let form = Form::from_name(&st(i, "form")?).ok_or("bad form")?;
        Ok(Input::Doc {
            slot: us(i, "doc")?,
            form,
        })
    }
}

fn plan_from(v: &Value) -> Plan {
    match v.get("plan") {
        Some(p) if p.is_object() => Plan {
            n: p.get("n").and_then(|x| x.as_u64()).unwrap_or(0) as u32,
            kind: p.get("kind").and_then(|x| x.as_u64()).unwrap_or(0) as u8,
            stack_kib: p.get("stack_kib").and_then(|x| x.as_u64()).unwrap_or(0) as u32,
        },
        _ => Plan::default(),
    }
}

pub fn op_from_json(v: &Value) -> Result<Op, String> {
    let kind = st(v, "op")?;
    Ok(match kind.as_str() {
        "compile" => Op::Compile {
            h: us(v, "h")?,
            rt: us(v, "rt")? as u8,
            text: st(v, "text")?,
        },
        "parse" => Op::Parse { text: st(v, "text")? },
        "clone" => Op::CloneH {
            from: us(v, "from")?,
            to: us(v, "to")?,
        },
        "drop" => Op::DropH { h: us(v, "h")? },
        "newdoc" => {
            let s = v.get("spec").ok_or("missing spec")?;
            let spec = if let Some(t) = s.get("json").and_then(|x| x.as_str()) {
                DocSpec::Json(t.to_string())
            } else if let Some(parts) = s.get("compose").and_then(|x| x.as_array()) {
                DocSpec::Compose {
                    obj: s.get("obj").and_then(|x| x.as_bool()).unwrap_or(false),
                    parts: parts
                        .iter()
                        .filter_map(|x| x.as_u64())
                        .map(|x| x as usize)
                        .collect(),
                }
            } else if s.get("sub_of").is_some() {
                DocSpec::Sub {
                    of: us(s, "sub_of")?,
                    idx: us(s, "idx")?,
                }
            } else if let Some(id) = s.get("result_of").and_then(|x| x.as_u64()) {
                DocSpec::ResultOf(id)
            } else if let Some(depth) = s.get("deep").and_then(|x| x.as_u64()) {
                DocSpec::Deep {
                    depth: depth as usize,
                    obj_every: s.get("obj_every").and_then(|x| x.as_u64()).unwrap_or(0) as usize,
                }
            } else {
                return Err(format!("bad doc spec {}", s));
            };
            Op::NewDoc { d: us(v, "d")?, spec }
        }
        "dropdoc" => Op::DropDoc { d: us(v, "d")? },
        "search" => Op::Search {
            id: us(v, "id")? as u64,
            h: us(v, "h")?,
            input: input_from(v)?,
            plan: plan_from(v),
        },
        "searchfresh" => Op::SearchFresh {
            id: us(v, "id")? as u64,
            rt: us(v, "rt")? as u8,
            text: st(v, "text")?,
            input: input_from(v)?,
            plan: plan_from(v),
        },
        other => return Err(format!("unknown op {}", other)),
    })
}

pub const H_SLOTS: usize = 6;
pub const D_SLOTS: usize = 5;
