//! Seeded generator of call histories (swarm style: the op mix, fault rate,
//! aliasing style and typed-input rate are themselves drawn per history).

use crate::ops::*;
use simcore::gen::{KEYS, STRS};
use simcore::{ExprGen, ExtraFns, Rng, J};

pub fn extra_fns() -> ExtraFns {
    ExtraFns {
        unary: vec!["vfail".into(), "vtick".into(), "vnew".into()],
    }
}

/// A document biased towards what the "fails midway" expressions look at.
pub fn gen_doc(r: &mut Rng) -> J {
    if r.chance(1, 160) {
        // a really big array (thousands of elements, lengths around powers of two and not
        // divisible by 4): chunked, parallel or size-thresholded code paths wake up here
        let n = *r.pick(&[2048usize, 2049, 3001, 4097, 5003, 2050, 16385, 20001]);
        let ys: Vec<J> = if n > 10000 {
            // first half 1, second half 1.0 (and a few others): equal keys far apart
            (0..n)
                .map(|i| if i % 997 == 0 { J::Int((i % 5) as i64) } else if i < n / 2 { J::Int(1) } else { J::Float(1.0) })
                .collect()
        } else {
            (0..n).map(|i| J::Int(((i * 7919) % 1009) as i64 - 300)).collect()
        };
        return J::Obj(vec![
            ("ys".to_string(), J::Arr(ys)),
            ("a".to_string(), J::Int(r.range(-3, 9))),
            ("xs".to_string(), J::Arr(vec![])),
        ]);
    }
    if r.chance(1, 2) {
        // now and then a long array with many equal sort keys: ties are where a sort's
        // stability (and anything else order-sensitive) becomes observable
        let long = r.chance(1, 10);
        let n = if long { 33 + r.below(48) } else { r.below(7) };
        let odd_at = if r.chance(1, 2) { r.below(n.max(7)) } else { usize::MAX };
        let mut xs = Vec::new();
        for i in 0..n {
            let k = if i == odd_at {
                match r.below(3) {
                    0 => J::Str("odd".into()),
                    1 => J::Null,
                    _ => J::Arr(vec![J::Int(1)]),
                }
            } else if long {
                J::Int(r.range(0, 2))
            } else {
                J::Int(r.range(-3, 9))
            };
            xs.push(J::Obj(vec![
                ("k".into(), k),
                ("n".into(), J::Str((*r.pick(STRS)).to_string())),
                ("id".into(), J::Int(i as i64)),
            ]));
        }
        let mut m = vec![("xs".to_string(), J::Arr(xs))];
        if long {
            // numbers that compare equal but print differently (1 vs 1.0)
            let ys: Vec<J> = (0..(33 + r.below(30)))
                .map(|_| {
                    let v = r.range(0, 3);
                    if v == 0 && r.chance(1, 3) {
                        J::Float(-0.0)
                    } else if r.chance(1, 3) {
                        J::Int(v)
                    } else if r.chance(1, 2) {
                        J::Float(v as f64)
                    } else {
                        // fractions that do not add up exactly: the order of additions shows
                        J::Float(v as f64 + *r.pick(&[0.1, 0.7, 0.001, 1e-9, 0.3333333333333333]))
                    }
                })
                .collect();
            m.push(("ys".to_string(), J::Arr(ys)));
        }
        for key in ["a", "b"] {
            if r.chance(3, 4) {
                let mut b = 6;
                let edgy = r.chance(1, 6);
                m.push((key.to_string(), J::gen(r, 2, &mut b, edgy)));
            }
        }
        for _ in 0..r.below(3) {
            let k = (*r.pick(KEYS)).to_string();
            if m.iter().any(|(kk, _)| *kk == k) {
                continue;
            }
            let mut b = 8;
            m.push((k, J::gen(r, 2, &mut b, false)));
        }
        J::Obj(m)
    } else {
        J::gen_doc(r)
    }
}

const TSTRS: &[&str] = &[
    "x", "", " ", " pad ", "\ttab\n", "A b", "abc", "10", " 7", "1e3", "true", "null", "\"q\"", "[1]", "{}",
    "\u{e4}\u{1F600}", "\u{20ac}", "line1\nline2", "\\back\\slash", "UPPER", "a\u{0}b", "\u{feff}bom",
];

fn gen_typed(r: &mut Rng) -> Typed {
    // half of the values are edges, half are drawn uniformly from the whole width
    let edge = r.chance(1, 2);
    let bits = r.next_u64();
    if r.chance(1, 18) {
        // the widest integers: in and beyond the JSON number range
        return if r.chance(1, 2) {
            Typed::I128(*r.pick(&[0i128, 5, -5, i64::MAX as i128, i64::MIN as i128, u64::MAX as i128, i128::MAX, i128::MIN, 1 << 70]))
        } else {
            Typed::U128(*r.pick(&[0u128, 7, u64::MAX as u128, (u64::MAX as u128) + 1, u128::MAX]))
        };
    }
    match r.below(16) {
        0 => Typed::I8(if edge { *r.pick(&[i8::MIN, -1, 0, 5, i8::MAX]) } else { bits as i8 }),
        1 => Typed::I16(if edge { *r.pick(&[i16::MIN, -1, 0, 300, i16::MAX]) } else { bits as i16 }),
        2 => Typed::I32(if edge { *r.pick(&[i32::MIN, -1, 0, 70000, i32::MAX]) } else { bits as i32 }),
        3 => Typed::I64(if edge {
            *r.pick(&[i64::MIN, -9007199254740993, -1, 0, 3, 9007199254740993, i64::MAX])
        } else {
            bits as i64
        }),
        4 => Typed::U8(if edge { *r.pick(&[0, 5, 128, u8::MAX]) } else { bits as u8 }),
        5 => Typed::U16(if edge { *r.pick(&[0, 5, 32768, u16::MAX]) } else { bits as u16 }),
        6 => Typed::U32(if edge { *r.pick(&[0, 5, 2147483648, u32::MAX]) } else { bits as u32 }),
        7 => Typed::U64(if edge {
            *r.pick(&[0, 5, 9007199254740993, 9223372036854775807, 9223372036854775808, u64::MAX])
        } else {
            bits
        }),
        8 => Typed::Isize(if edge { *r.pick(&[isize::MIN, -1, 0, 7, isize::MAX]) } else { bits as isize }),
        9 => Typed::Usize(if edge {
            *r.pick(&[0, 7, 9223372036854775808usize, usize::MAX])
        } else {
            bits as usize
        }),
        10 => Typed::F32(if edge {
            *r.pick(&[0.0f32, -0.0, 0.1, 1.5, -2.25, 16777217.0, f32::MAX, f32::MIN_POSITIVE, 1e-45])
        } else {
            let f = f32::from_bits(bits as u32);
            if f.is_finite() { f } else { 0.25 }
        }),
        11 => Typed::F64(if edge {
            *r.pick(&[
                0.0f64, -0.0, 0.1, 1.5, 3.0, -2.25, 5e-324, 1e300, f64::MAX, 0.30000000000000004,
                9007199254740993.0,
            ])
        } else {
            let f = f64::from_bits(bits);
            if f.is_finite() { f } else { -0.125 }
        }),
        12 => Typed::Unit,
        13 => Typed::Bool(r.chance(1, 2)),
        14 => Typed::Str((*r.pick(TSTRS)).to_string()),
        _ => Typed::String((*r.pick(TSTRS)).to_string()),
    }
}

/// A text that differs from `t` only slightly.
fn text_variant(r: &mut Rng, t: &str) -> String {
    let cs: Vec<char> = t.chars().collect();
    if cs.is_empty() {
        return " ".to_string();
    }
    let spaces: Vec<usize> = (0..cs.len()).filter(|&i| cs[i] == ' ').collect();
    let mut out = cs.clone();
    match r.below(7) {
        0 | 1 if !spaces.is_empty() => {
            // double a space (inside a raw string this is data, between tokens it is not)
            let i = spaces[r.below(spaces.len())];
            out.insert(i, ' ');
        }
        2 if !spaces.is_empty() => {
            let i = spaces[r.below(spaces.len())];
            out[i] = *r.pick(&['\t', '\n', '\u{a0}']);
        }
        3 => out.push(' '),
        4 => out.insert(0, ' '),
        5 => {
            // flip the case of one letter
            let letters: Vec<usize> = (0..cs.len()).filter(|&i| cs[i].is_ascii_alphabetic()).collect();
            if let Some(&i) = letters.get(r.below(letters.len().max(1))) {
                out[i] = if cs[i].is_ascii_lowercase() { cs[i].to_ascii_uppercase() } else { cs[i].to_ascii_lowercase() };
            }
        }
        _ => {
            // change one digit or append a character
            let digits: Vec<usize> = (0..cs.len()).filter(|&i| cs[i].is_ascii_digit()).collect();
            if let Some(&i) = digits.get(r.below(digits.len().max(1))) {
                out[i] = if cs[i] == '9' { '1' } else { ((cs[i] as u8) + 1) as char };
            } else {
                out.push('_');
            }
        }
    }
    out.into_iter().collect()
}

/// Expressions that make sense on a scalar input.
fn scalar_expr(r: &mut Rng) -> String {
    (*r.pick(&[
        "@",
        "type(@)",
        "to_string(@)",
        "[@, @]",
        "{a: @}",
        "@ == `5`",
        "@ > `0`",
        "abs(@)",
        "to_number(@)",
        "length(@)",
        "@ || `1`",
        "!@",
        "ceil(@)",
        "not_null(@, `7`)",
        "to_array(@)[0]",
        "reverse(@)",
        "@ == `0`",
        "[@][?@ < `1`]",
    ]))
    .to_string()
}

struct Model {
    h: Vec<Option<(u8, String)>>,
    d: Vec<bool>,
    /// ids of recent search ops (candidates for feedback)
    recent: Vec<u64>,
    /// (h, input, plan) of earlier searches, for exact repetition
    past: Vec<(usize, Input, Plan)>,
    next_id: u64,
    fb_depth: Vec<u32>,
    /// the family of documents of this history: a base and its mutations
    base: J,
    dj: Vec<Option<J>>,
}

pub struct Swarm {
    pub w: [u32; 12],
    pub fault_pct: u32,
    pub typed_pct: u32,
    pub midway_pct: u32,
    pub default_rt_pct: u32,
}

fn text_has_fault_fn(t: &str) -> bool {
    t.contains("vfail(") || t.contains("vtick(") || t.contains("vnew(")
}

pub fn gen_history(seed: u64) -> Vec<Op> {
    let mut r = Rng::new(seed);
    let extra = extra_fns();
    let sw = Swarm {
        w: [
            6 + r.below(8) as u32,  // 0 compile
            r.below(4) as u32,      // 1 compile invalid
            r.below(4) as u32,      // 2 parse
            r.below(6) as u32,      // 3 clone
            r.below(4) as u32,      // 4 drop handle
            3 + r.below(6) as u32,  // 5 newdoc
            r.below(5) as u32,      // 6 dropdoc+realloc
            14 + r.below(20) as u32, // 7 search
            r.below(8) as u32,      // 8 searchfresh
            2 + r.below(8) as u32,  // 9 repeat earlier search
            r.below(8) as u32,      // 10 fault-then-recover pair
            r.below(6) as u32,      // 11 feedback result as doc
        ],
        fault_pct: [0, 15, 40, 70][r.below(4)],
        typed_pct: [0, 5, 15, 40][r.below(4)],
        midway_pct: [5, 20, 40][r.below(3)],
        default_rt_pct: [10, 40, 70][r.below(3)],
    };
    let total_w: u32 = sw.w.iter().sum();
    let nops = 8 + r.below(57);
    let mut m = Model {
        h: vec![None; H_SLOTS],
        d: vec![false; D_SLOTS],
        recent: vec![],
        past: vec![],
        next_id: 1,
        fb_depth: vec![0; D_SLOTS],
        base: gen_doc(&mut r),
        dj: vec![None; D_SLOTS],
    };
    let mut ops: Vec<Op> = Vec::new();

    // helpers as closures over &mut are awkward; use small fns
    fn new_text(r: &mut Rng, extra: &ExtraFns, sw: &Swarm, rt: u8, m: &Model) -> String {
        let use_extra = rt != 0;
        let none = ExtraFns::default();
        let ex = if use_extra { extra } else { &none };
        let has_xs = matches!(&m.base, J::Obj(mm) if mm.iter().any(|(k, _)| k == "xs"));
        if has_xs && r.chance(sw.midway_pct, 100) {
            let mut g = ExprGen::new(r, ex);
            g.midway()
        } else if r.chance(65, 100) {
            // directed at the base document or at a live member of its family
            let live: Vec<&J> = m.dj.iter().filter_map(|x| x.as_ref()).collect();
            let target: J = if live.is_empty() || r.chance(1, 2) {
                m.base.clone()
            } else {
                live[r.below(live.len())].clone()
            };
            let depth = 1 + r.below(2) as u32;
            let mut g = ExprGen::new(r, ex);
            g.extra_pct = if use_extra { 40 } else { 0 };
            g.for_doc(&target, depth)
        } else {
            let depth = 1 + r.below(4) as u32;
            let mut g = ExprGen::new(r, ex);
            g.extra_pct = if use_extra { 35 } else { 0 };
            g.expr(depth)
        }
    }
    fn family_doc(r: &mut Rng, m: &Model) -> J {
        match r.below(10) {
            0..=4 => m.base.mutated(r),
            5 | 6 => {
                let live: Vec<&J> = m.dj.iter().filter_map(|x| x.as_ref()).collect();
                if live.is_empty() {
                    m.base.mutated(r)
                } else {
                    live[r.below(live.len())].mutated(r)
                }
            }
            7 => m.base.clone(),
            _ => gen_doc(r),
        }
    }
    fn pick_rt(r: &mut Rng, sw: &Swarm) -> u8 {
        if r.chance(sw.default_rt_pct, 100) {
            0
        } else if r.chance(2, 3) {
            1
        } else {
            2
        }
    }
    fn pick_filled<T>(r: &mut Rng, xs: &[T], f: impl Fn(&T) -> bool) -> Option<usize> {
        let idx: Vec<usize> = (0..xs.len()).filter(|&i| f(&xs[i])).collect();
        if idx.is_empty() {
            None
        } else {
            Some(idx[r.below(idx.len())])
        }
    }
    fn gen_input(r: &mut Rng, sw: &Swarm, m: &Model) -> Option<Input> {
        if r.chance(sw.typed_pct, 100) {
            let generic = r.chance(1, 3);
            return Some(Input::Typed {
                val: gen_typed(r),
                generic,
            });
        }
        let slot = pick_filled(r, &m.d, |b| *b)?;
        let form = if r.chance(1, 2) {
            Form::Rcvar
        } else {
            *r.pick(FORMS)
        };
        Some(Input::Doc { slot, form })
    }
    fn gen_plan(r: &mut Rng, sw: &Swarm, text: &str) -> Plan {
        if text_has_fault_fn(text) && r.chance(sw.fault_pct, 100) {
            Plan {
                n: *r.pick(&[1, 1, 1, 2, 2, 3, 4, 6]),
                kind: r.below(FAULT_KINDS.len()) as u8,
                stack_kib: 0,
            }
        } else if r.chance(1, 40) {
            // the same call, made from much deeper in the caller's stack
            Plan {
                n: 0,
                kind: 0,
                stack_kib: *r.pick(&[1200, 2500, 3500]),
            }
        } else {
            Plan::default()
        }
    }

    // prologue: a couple of documents and expressions
    for d in 0..(1 + r.below(2)) {
        let j = if d == 0 { m.base.clone() } else { family_doc(&mut r, &m) };
        ops.push(Op::NewDoc {
            d,
            spec: DocSpec::Json(j.to_json()),
        });
        m.d[d] = true;
        m.dj[d] = Some(j);
    }
    for h in 0..(1 + r.below(2)) {
        let rt = pick_rt(&mut r, &sw);
        let text = new_text(&mut r, &extra, &sw, rt, &m);
        ops.push(Op::Compile {
            h,
            rt,
            text: text.clone(),
        });
        m.h[h] = Some((rt, text));
    }

    while ops.len() < nops {
        let mut x = r.below(total_w as usize) as u32;
        let mut k = 0;
        while x >= sw.w[k] {
            x -= sw.w[k];
            k += 1;
        }
        match k {
            0 => {
                let h = r.below(H_SLOTS);
                let rt = pick_rt(&mut r, &sw);
                // sometimes re-use a text already compiled (possibly under another runtime)
                let text = match pick_filled(&mut r, &m.h, |x| x.is_some()) {
                    Some(i) if r.chance(1, 4) => m.h[i].as_ref().unwrap().1.clone(),
                    // a near-duplicate of a text already compiled: anything that keys state by
                    // a lossy digest of the text (case-folded, white space collapsed, truncated,
                    // hashed weakly) now confuses the two
                    Some(i) if r.chance(1, 5) => text_variant(&mut r, &m.h[i].as_ref().unwrap().1),
                    _ => {
                        if r.chance(sw.typed_pct, 100) {
                            scalar_expr(&mut r)
                        } else {
                            new_text(&mut r, &extra, &sw, rt, &m)
                        }
                    }
                };
                ops.push(Op::Compile {
                    h,
                    rt,
                    text: text.clone(),
                });
                m.h[h] = Some((rt, text));
            }
            1 => {
                let h = r.below(H_SLOTS);
                let rt = pick_rt(&mut r, &sw);
                let none = ExtraFns::default();
                let text = ExprGen::new(&mut r, &none).invalid();
                ops.push(Op::Compile {
                    h,
                    rt,
                    text: text.clone(),
                });
                // usually does not compile (the executor decides); model the slot as
                // empty so that later ops do not aim at it
                let _ = text;
                m.h[h] = None;
            }
            2 => {
                let text = match pick_filled(&mut r, &m.h, |x| x.is_some()) {
                    Some(i) if r.chance(2, 3) => m.h[i].as_ref().unwrap().1.clone(),
                    _ => new_text(&mut r, &extra, &sw, 1, &m),
                };
                ops.push(Op::Parse { text });
            }
            3 => {
                if let Some(from) = pick_filled(&mut r, &m.h, |x| x.is_some()) {
                    let to = r.below(H_SLOTS);
                    if to != from {
                        ops.push(Op::CloneH { from, to });
                        m.h[to] = m.h[from].clone();
                    }
                }
            }
            4 => {
                if let Some(h) = pick_filled(&mut r, &m.h, |x| x.is_some()) {
                    if m.h.iter().filter(|x| x.is_some()).count() > 1 {
                        ops.push(Op::DropH { h });
                        m.h[h] = None;
                    }
                }
            }
            5 => {
                let d = r.below(D_SLOTS);
                let mut jnew: Option<J> = None;
                let fam = |r: &mut Rng, m: &Model, jnew: &mut Option<J>| -> DocSpec {
                    let j = family_doc(r, m);
                    let t = j.to_json();
                    *jnew = Some(j);
                    DocSpec::Json(t)
                };
                let nkinds = if r.chance(1, 6) { 9 } else { 8 };
                let spec = match r.below(nkinds) {
                    8 => DocSpec::Deep {
                        // around serde_json's parser limit of 128, and well beyond
                        depth: *r.pick(&[5, 100, 127, 128, 129, 130, 160, 250]),
                        obj_every: *r.pick(&[0, 0, 2, 7]),
                    },
                    0 | 1 => {
                        let filled: Vec<usize> = (0..D_SLOTS).filter(|&i| m.d[i] && i != d).collect();
                        if filled.is_empty() {
                            fam(&mut r, &m, &mut jnew)
                        } else {
                            let n = 1 + r.below(3);
                            let parts = (0..n).map(|_| filled[r.below(filled.len())]).collect();
                            DocSpec::Compose {
                                obj: r.chance(1, 2),
                                parts,
                            }
                        }
                    }
                    2 => match pick_filled(&mut r, &m.d, |b| *b) {
                        Some(of) if of != d => DocSpec::Sub {
                            of,
                            idx: r.below(4),
                        },
                        _ => fam(&mut r, &m, &mut jnew),
                    },
                    3 => {
                        // content-equal twin of a live JSON document, separately allocated
                        let live: Vec<&J> = m.dj.iter().filter_map(|x| x.as_ref()).collect();
                        if live.is_empty() {
                            fam(&mut r, &m, &mut jnew)
                        } else {
                            let j = live[r.below(live.len())].clone();
                            let t = j.to_json();
                            jnew = Some(j);
                            DocSpec::Json(t)
                        }
                    }
                    _ => fam(&mut r, &m, &mut jnew),
                };
                m.fb_depth[d] = match &spec {
                    DocSpec::Compose { parts, .. } => parts.iter().map(|&p| m.fb_depth[p]).max().unwrap_or(0),
                    DocSpec::Sub { of, .. } => m.fb_depth[*of],
                    _ => 0,
                };
                let aliased = matches!(spec, DocSpec::Compose { .. } | DocSpec::Sub { .. });
                ops.push(Op::NewDoc { d, spec });
                m.d[d] = true;
                m.dj[d] = jnew;
                if aliased && r.chance(1, 2) {
                    // the new document holds the same node more than once (and shares it with
                    // another live document): probe with expressions that put two aliases of
                    // one value side by side
                    let h = r.below(H_SLOTS);
                    let text = (*r.pick(&[
                        "[0] == [1]", "[0] < [1]", "[0] <= [1]", "[0] > [1]", "[0] != [1]", "a == b", "a < b", "a >= b",
                        "[[0], [1]] | [0] < [1]", "[?@ == `1`]", "[0] | [1]", "[*][0]", "*", "[a, b] | [0] > [1]",
                        "[0][0] < [1][0]", "a.k <= b.k", "[0].a >= [1].a", "sort_by(@, &k)", "[0] && [1]", "contains(@, [0])",
                        "max_by(@, &id)", "[].id", "merge(a, b)", "values(@)[0] < values(@)[1]",
                    ]))
                    .to_string();
                    ops.push(Op::Compile {
                        h,
                        rt: 0,
                        text: text.clone(),
                    });
                    m.h[h] = Some((0, text));
                    let id = m.next_id;
                    m.next_id += 1;
                    let input = Input::Doc {
                        slot: d,
                        form: *r.pick(&[Form::Rcvar, Form::RefRcvar, Form::Rcvar, Form::RefVar]),
                    };
                    ops.push(Op::Search {
                        id,
                        h,
                        input: input.clone(),
                        plan: Plan::default(),
                    });
                    m.recent.push(id);
                    m.past.push((h, input, Plan::default()));
                }
            }
            6 => {
                if let Some(d) = pick_filled(&mut r, &m.d, |b| *b) {
                    ops.push(Op::DropDoc { d });
                    // re-allocate at once: same size class, so the allocator tends to
                    // hand the same addresses back (address-keyed caches go stale)
                    let j = family_doc(&mut r, &m);
                    ops.push(Op::NewDoc {
                        d,
                        spec: DocSpec::Json(j.to_json()),
                    });
                    m.fb_depth[d] = 0;
                    m.d[d] = true;
                    m.dj[d] = Some(j);
                }
            }
            7 => {
                if let Some(h) = pick_filled(&mut r, &m.h, |x| x.is_some()) {
                    if let Some(input) = gen_input(&mut r, &sw, &m) {
                        let text = m.h[h].as_ref().unwrap().1.clone();
                        let plan = gen_plan(&mut r, &sw, &text);
                        let id = m.next_id;
                        m.next_id += 1;
                        ops.push(Op::Search {
                            id,
                            h,
                            input: input.clone(),
                            plan,
                        });
                        m.recent.push(id);
                        m.past.push((h, input, plan));
                    }
                }
            }
            8 => {
                if let Some(hi) = pick_filled(&mut r, &m.h, |x| x.is_some()) {
                    if let Some(input) = gen_input(&mut r, &sw, &m) {
                        let (rt0, text) = m.h[hi].clone().unwrap();
                        // usually the same runtime (handle-independence), sometimes another
                        // one (a cache keyed by text alone would now be wrong)
                        let rt = if r.chance(3, 4) { rt0 } else { pick_rt(&mut r, &sw) };
                        let plan = gen_plan(&mut r, &sw, &text);
                        let id = m.next_id;
                        m.next_id += 1;
                        ops.push(Op::SearchFresh {
                            id,
                            rt,
                            text,
                            input,
                            plan,
                        });
                        m.recent.push(id);
                    }
                }
            }
            9 => {
                if !m.past.is_empty() {
                    let (h, input, plan) = m.past[r.below(m.past.len())].clone();
                    let ok_doc = match &input {
                        Input::Doc { slot, .. } => m.d[*slot],
                        _ => true,
                    };
                    if m.h[h].is_some() && ok_doc {
                        let id = m.next_id;
                        m.next_id += 1;
                        ops.push(Op::Search { id, h, input, plan });
                        m.recent.push(id);
                    }
                }
            }
            10 => {
                // a faulted search followed (not necessarily at once) by the same search, fault off
                let cand: Vec<usize> = (0..H_SLOTS)
                    .filter(|&i| m.h[i].as_ref().map_or(false, |(_, t)| text_has_fault_fn(t)))
                    .collect();
                if let (false, Some(d)) = (cand.is_empty(), pick_filled(&mut r, &m.d, |b| *b)) {
                    let h = cand[r.below(cand.len())];
                    let input = Input::Doc {
                        slot: d,
                        form: Form::Rcvar,
                    };
                    let plan = Plan {
                        n: *r.pick(&[1, 1, 2, 2, 3, 5]),
                        kind: r.below(2) as u8,
                        stack_kib: 0,
                    };
                    let id = m.next_id;
                    m.next_id += 2;
                    ops.push(Op::Search {
                        id,
                        h,
                        input: input.clone(),
                        plan,
                    });
                    ops.push(Op::Search {
                        id: id + 1,
                        h,
                        input: input.clone(),
                        plan: Plan::default(),
                    });
                    m.past.push((h, input, Plan::default()));
                    m.recent.push(id + 1);
                }
            }
            _ => {
                if !m.recent.is_empty() {
                    let id = m.recent[m.recent.len() - 1 - r.below(m.recent.len().min(4))];
                    let d = r.below(D_SLOTS);
                    // bound the length of feedback chains so that history-free
                    // re-evaluation stays cheap
                    let depth = 1 + m.fb_depth.iter().copied().max().unwrap_or(0);
                    if depth <= 3 {
                        ops.push(Op::NewDoc {
                            d,
                            spec: DocSpec::ResultOf(id),
                        });
                        m.d[d] = true;
                        m.dj[d] = None;
                        m.fb_depth[d] = depth;
                    }
                }
            }
        }
    }
    ops
}
