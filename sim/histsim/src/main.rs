//! histsim — seeded call-history simulator for C13 (purity) and, built under
//! each cargo feature set, C17 (features change representation, not meaning).
//!
//!   histsim run  --seed S --start A --count N --mode p1|p3 --out FILE [--viol-dir DIR]
//!   histsim exec --file REPLAY.json --mode p1|p3 [--verbose]
//!   histsim gen  --seed S --index I
//!
//! One integer (seed) decides every history; history i uses mix(seed, i).
//! Nothing here reads a clock, an address or a randomly keyed hash order into
//! its output.

mod exec;
mod genhist;
mod ops;
mod world;

use exec::{Exec, Global, RunOut, Stats};
use ops::{op_from_json, op_to_json, Op};
use serde_json::{json, Value};
use simcore::mix;
use std::io::Write;
use world::World;

fn arg<'a>(args: &'a [String], name: &str) -> Option<&'a str> {
    args.iter()
        .position(|a| a == name)
        .and_then(|i| args.get(i + 1))
        .map(|s| s.as_str())
}

fn die(msg: &str) -> ! {
    eprintln!("histsim: {}", msg);
    std::process::exit(2)
}

fn features() -> &'static str {
    match (cfg!(feature = "sync"), cfg!(feature = "specialized")) {
        (false, false) => "default",
        (true, false) => "sync",
        (false, true) => "specialized",
        (true, true) => "sync,specialized",
    }
}

fn stats_json(stats: &Stats) -> Value {
    let hexes = |s: &std::collections::BTreeSet<u64>| -> Vec<String> {
        s.iter().map(|x| format!("{:016x}", x)).collect()
    };
    json!({
        "counters": stats.c,
        "shapes": hexes(&stats.shapes),
        "shapes_nontrivial": hexes(&stats.shapes_nontrivial),
        "triples": hexes(&stats.triples),
        "triples_special": hexes(&stats.triples_special),
    })
}

fn hline(idx: u64, nops: usize, o: &RunOut) -> String {
    format!(
        "H {} {} {} {} {:016x} {:016x} {:016x} {:016x}",
        idx, nops, o.nsearch, o.nentries, o.shape, o.log_hash, o.map_hash, o.class_hash
    )
}

static LAST_PANIC: std::sync::Mutex<String> = std::sync::Mutex::new(String::new());

/// compile / search panics are caught where they happen and are outcomes.  A panic that
/// escapes anywhere else in a history (building or converting a document, cloning or
/// dropping a handle, rendering a result) leaves the simulator unable to go on.  Whether
/// such a step panics is not what C13 / C17 state (and which documents a process builds at
/// all differs between the in-order and the history-free process), so it is reported as
/// harness trouble with the place of the panic (exit 2), never as a violation.
fn guarded(run: impl FnOnce() -> RunOut) -> RunOut {
    match std::panic::catch_unwind(std::panic::AssertUnwindSafe(run)) {
        Ok(o) => o,
        Err(_) => {
            let at = LAST_PANIC.lock().map(|s| s.clone()).unwrap_or_default();
            die(&format!("a panic escaped a history outside compile / search, raised at {}", at));
        }
    }
}

fn main() {
    // the SUT's panics are outcomes, not noise on stderr; remember where the last one was raised
    std::panic::set_hook(Box::new(|info| {
        if let Ok(mut s) = LAST_PANIC.lock() {
            *s = info.location().map(|l| format!("{}:{}", l.file(), l.line())).unwrap_or_else(|| "unknown location".into());
        }
    }));
    let args: Vec<String> = std::env::args().collect();
    let cmd = args.get(1).map(|s| s.as_str()).unwrap_or("");
    match cmd {
        "features" => println!("{}", features()),
        "gen" => {
            let seed: u64 = arg(&args, "--seed").and_then(|s| s.parse().ok()).unwrap_or(simcore::DEFAULT_SEED);
            let index: u64 = arg(&args, "--index").and_then(|s| s.parse().ok()).unwrap_or(0);
            let ops = genhist::gen_history(mix(seed, index));
            let v = json!({"property":"C13","seed":seed,"histories":[{"index":index,"ops":ops.iter().map(op_to_json).collect::<Vec<_>>()}]});
            println!("{}", serde_json::to_string_pretty(&v).unwrap());
        }
        "run" => {
            let seed: u64 = arg(&args, "--seed").and_then(|s| s.parse().ok()).unwrap_or(simcore::DEFAULT_SEED);
            let start: u64 = arg(&args, "--start").and_then(|s| s.parse().ok()).unwrap_or(0);
            let count: u64 = arg(&args, "--count").and_then(|s| s.parse().ok()).unwrap_or(100);
            let mode = arg(&args, "--mode").unwrap_or("p1");
            let out_path = arg(&args, "--out").unwrap_or_else(|| die("--out required"));
            let viol_dir = arg(&args, "--viol-dir");
            let samples: u64 = arg(&args, "--samples").and_then(|s| s.parse().ok()).unwrap_or(0);
            let world = World::new();
            let mut global = Global::default();
            let mut stats = Stats::default();
            // "-": standard output (used under Miri, whose isolation forbids opening files)
            let sink: Box<dyn Write> = if out_path == "-" {
                Box::new(std::io::stdout())
            } else {
                Box::new(std::fs::File::create(out_path).unwrap_or_else(|e| die(&format!("cannot create {}: {}", out_path, e))))
            };
            let mut out = std::io::BufWriter::new(sink);
            writeln!(out, "SEED {} mode={} features={} start={} count={}", seed, mode, features(), start, count).unwrap();
            let idxs: Vec<u64> = if mode == "p3" {
                (start..start + count).rev().collect()
            } else {
                (start..start + count).collect()
            };
            let mut nviol = 0u64;
            for idx in idxs {
                let hseed = mix(seed, idx);
                let ops = genhist::gen_history(hseed);
                let o = guarded(|| {
                    let ex = Exec::new(&world, &mut global, &mut stats, idx, false);
                    if mode == "p3" {
                        ex.run_p3(&ops, mix(hseed, 0x9e3))
                    } else {
                        ex.run_p1(&ops)
                    }
                });
                writeln!(out, "{}", hline(idx, ops.len(), &o)).unwrap();
                for v in &o.violations {
                    nviol += 1;
                    writeln!(
                        out,
                        "V {} {} {} {}",
                        idx,
                        v.invariant,
                        v.op_index,
                        serde_json::to_string(&v.detail).unwrap()
                    )
                    .unwrap();
                }
                if !o.violations.is_empty() {
                    if let Some(dir) = viol_dir {
                        let _ = std::fs::create_dir_all(dir);
                        let v = json!({
                            "property": "C13", "seed": seed, "mode": mode, "features": features(),
                            "batch": {"start": start, "count": count},
                            "invariant": o.violations[0].invariant,
                            "violations": o.violations.iter().map(|v| json!({"invariant": v.invariant, "op_index": v.op_index, "detail": v.detail})).collect::<Vec<_>>(),
                            "histories": [{"index": idx, "ops": ops.iter().map(op_to_json).collect::<Vec<_>>()}],
                        });
                        let p = format!("{}/viol_{}_{}.json", dir, mode, idx);
                        let _ = std::fs::write(&p, serde_json::to_string_pretty(&v).unwrap());
                    }
                }
                if idx < start + samples {
                    writeln!(
                        out,
                        "SAMPLE {}",
                        serde_json::to_string(&json!({"index": idx, "ops": ops.iter().map(op_to_json).collect::<Vec<_>>()})).unwrap()
                    )
                    .unwrap();
                }
            }
            stats.add("fault_fn.total_invocations", world::TOTAL_CALLS.load(std::sync::atomic::Ordering::Relaxed));
            writeln!(out, "STATS {}", serde_json::to_string(&stats_json(&stats)).unwrap()).unwrap();
            writeln!(out, "END violations={}", nviol).unwrap();
            out.flush().unwrap();
        }
        "exec" => {
            let file = arg(&args, "--file").unwrap_or_else(|| die("--file required"));
            let mode = arg(&args, "--mode").unwrap_or("p1");
            let verbose = args.iter().any(|a| a == "--verbose");
            let text = std::fs::read_to_string(file).unwrap_or_else(|e| die(&format!("cannot read {}: {}", file, e)));
            let v: Value = serde_json::from_str(&text).unwrap_or_else(|e| die(&format!("bad JSON in {}: {}", file, e)));
            let hists = v
                .get("histories")
                .and_then(|h| h.as_array())
                .unwrap_or_else(|| die("replay file has no histories"));
            let world = World::new();
            let mut global = Global::default();
            let mut stats = Stats::default();
            println!("SEED {} mode={} features={}", v.get("seed").and_then(|s| s.as_u64()).unwrap_or(0), mode, features());
            let mut nviol = 0;
            let order: Vec<usize> = if mode == "p3" {
                (0..hists.len()).rev().collect()
            } else {
                (0..hists.len()).collect()
            };
            for hi in order {
                let h = &hists[hi];
                let idx = h.get("index").and_then(|x| x.as_u64()).unwrap_or(hi as u64);
                let ops: Vec<Op> = h
                    .get("ops")
                    .and_then(|o| o.as_array())
                    .unwrap_or_else(|| die("history without ops"))
                    .iter()
                    .map(|o| op_from_json(o).unwrap_or_else(|e| die(&e)))
                    .collect();
                let o = guarded(|| {
                    let ex = Exec::new(&world, &mut global, &mut stats, idx, verbose);
                    if mode == "p3" {
                        let hseed = mix(v.get("seed").and_then(|s| s.as_u64()).unwrap_or(0), idx);
                        ex.run_p3(&ops, mix(hseed, 0x9e3))
                    } else {
                        ex.run_p1(&ops)
                    }
                });
                for l in &o.log {
                    println!("L {} {}", idx, l);
                }
                println!("{}", hline(idx, ops.len(), &o));
                for vi in &o.violations {
                    nviol += 1;
                    println!("V {} {} {} {}", idx, vi.invariant, vi.op_index, serde_json::to_string(&vi.detail).unwrap());
                }
            }
            println!("END violations={}", nviol);
        }
        _ => die("usage: histsim run|exec|gen|features ..."),
    }
}
