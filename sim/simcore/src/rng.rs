//! SplitMix64 -> xoshiro256** PRNG.  Everything random in every simulator is
//! drawn from one of these, seeded from VERIF_SEED.

#[derive(Clone, Debug)]
pub struct Rng {
    s: [u64; 4],
}

#[inline]
fn splitmix(x: &mut u64) -> u64 {
    *x = x.wrapping_add(0x9E37_79B9_7F4A_7C15);
    let mut z = *x;
    z = (z ^ (z >> 30)).wrapping_mul(0xBF58_476D_1CE4_E5B9);
    z = (z ^ (z >> 27)).wrapping_mul(0x94D0_49BB_1331_11EB);
    z ^ (z >> 31)
}

/// Derive the seed of run `i` of a batch from the batch seed.
pub fn mix(seed: u64, i: u64) -> u64 {
    let mut x = seed ^ i.wrapping_mul(0xD6E8_FEB8_6659_FD93).rotate_left(17);
    let a = splitmix(&mut x);
    let b = splitmix(&mut x);
    a ^ b.rotate_left(29)
}

impl Rng {
    pub fn new(seed: u64) -> Rng {
        let mut x = seed;
        let s = [
            splitmix(&mut x),
            splitmix(&mut x),
            splitmix(&mut x),
            splitmix(&mut x),
        ];
        Rng { s }
    }

    #[inline]
    pub fn next_u64(&mut self) -> u64 {
        let result = self.s[1].wrapping_mul(5).rotate_left(7).wrapping_mul(9);
        let t = self.s[1] << 17;
        self.s[2] ^= self.s[0];
        self.s[3] ^= self.s[1];
        self.s[1] ^= self.s[2];
        self.s[0] ^= self.s[3];
        self.s[2] ^= t;
        self.s[3] = self.s[3].rotate_left(45);
        result
    }

    /// Uniform in 0..n (n > 0).  Plain modulo: bias is irrelevant here.
    #[inline]
    pub fn below(&mut self, n: usize) -> usize {
        debug_assert!(n > 0);
        (self.next_u64() % (n as u64)) as usize
    }

    /// Uniform in lo..=hi.
    #[inline]
    pub fn range(&mut self, lo: i64, hi: i64) -> i64 {
        debug_assert!(hi >= lo);
        lo + (self.next_u64() % ((hi - lo + 1) as u64)) as i64
    }

    /// True with probability num/den.
    #[inline]
    pub fn chance(&mut self, num: u32, den: u32) -> bool {
        (self.next_u64() % den as u64) < num as u64
    }

    #[inline]
    pub fn pick<'a, T>(&mut self, xs: &'a [T]) -> &'a T {
        &xs[self.below(xs.len())]
    }

    /// Fisher-Yates.
    pub fn shuffle<T>(&mut self, xs: &mut [T]) {
        for i in (1..xs.len()).rev() {
            let j = self.below(i + 1);
            xs.swap(i, j);
        }
    }

    /// Derive an independent child stream.
    pub fn fork(&mut self) -> Rng {
        Rng::new(self.next_u64())
    }
}

#[cfg(test)]
mod t {
    use super::*;
    #[test]
    fn stable_stream() {
        let mut r = Rng::new(1);
        let a: Vec<u64> = (0..3).map(|_| r.next_u64()).collect();
        let mut r2 = Rng::new(1);
        let b: Vec<u64> = (0..3).map(|_| r2.next_u64()).collect();
        assert_eq!(a, b);
        assert_ne!(mix(1, 0), mix(1, 1));
    }
}
