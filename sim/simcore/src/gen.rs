//! Seeded generators for JSON documents and JMESPath expression texts.
//!
//! These only *produce text*; they never call the system under test, so a
//! generator bug can make a run less interesting but never wrong: every
//! oracle in the simulators compares the implementation with itself or with a
//! reference model fed with the same text.

use crate::json_str;
use crate::rng::Rng;

/// A plain JSON tree owned by the harness.
#[derive(Clone, Debug, PartialEq)]
pub enum J {
    Null,
    Bool(bool),
    Int(i64),
    UInt(u64),
    Float(f64),
    Str(String),
    Arr(Vec<J>),
    Obj(Vec<(String, J)>),
}

pub const KEYS: &[&str] = &["a", "b", "c", "k", "n", "s", "xs", "foo", "bar", "id"];
pub const STRS: &[&str] = &[
    "x", "y", "", "abc", "b", "a", "\u{e4}\u{1F600}", "10", "zz", "A b", "q\"q", "\u{20ac}", "e\u{301}", " pad ",
    "0123456789012345678901234567890123456789012345678901234567890123456789", "-1.5e3", "null",
];
/// keys that are not plain identifiers (used now and then, quoted in expressions)
pub const ODD_KEYS: &[&str] = &["\u{e9}t\u{e9}", "a b", "", "\u{1F600}", "K", "a.b", "0"];

impl J {
    pub fn to_json(&self) -> String {
        let mut s = String::new();
        self.write(&mut s);
        s
    }

    fn write(&self, out: &mut String) {
        match self {
            J::Null => out.push_str("null"),
            J::Bool(b) => out.push_str(if *b { "true" } else { "false" }),
            J::Int(i) => out.push_str(&i.to_string()),
            J::UInt(u) => out.push_str(&u.to_string()),
            J::Float(f) => {
                // {:?} prints the shortest round-trip form and always keeps a
                // '.' or exponent, which is valid JSON for finite values.
                out.push_str(&format!("{:?}", f));
            }
            J::Str(s) => out.push_str(&json_str(s)),
            J::Arr(v) => {
                out.push('[');
                for (i, x) in v.iter().enumerate() {
                    if i > 0 {
                        out.push(',');
                    }
                    x.write(out);
                }
                out.push(']');
            }
            J::Obj(m) => {
                out.push('{');
                for (i, (k, x)) in m.iter().enumerate() {
                    if i > 0 {
                        out.push(',');
                    }
                    out.push_str(&json_str(k));
                    out.push(':');
                    x.write(out);
                }
                out.push('}');
            }
        }
    }

    pub fn nodes(&self) -> usize {
        match self {
            J::Arr(v) => 1 + v.iter().map(|x| x.nodes()).sum::<usize>(),
            J::Obj(m) => 1 + m.iter().map(|(_, x)| x.nodes()).sum::<usize>(),
            _ => 1,
        }
    }

    fn scalar(r: &mut Rng, edgy: bool) -> J {
        match r.below(if edgy { 12 } else { 9 }) {
            0 => J::Null,
            1 => J::Bool(r.chance(1, 2)),
            2 | 3 | 4 => {
                if r.chance(1, 12) {
                    // the zeros: 0, 0.0 and -0.0 compare equal but are three different values
                    r.pick(&[J::Int(0), J::Float(0.0), J::Float(-0.0)]).clone()
                } else {
                    J::Int(r.range(-3, 12))
                }
            }
            5 => J::Float([0.5, 1.5, -2.25, 3.0, 0.1, 100.75, 1.0, 2.0][r.below(8)]),
            6 | 7 | 8 => J::Str((*r.pick(STRS)).to_string()),
            9 => J::Int(*r.pick(&[
                i64::MIN,
                i64::MAX,
                -9007199254740993,
                9007199254740993,
                2147483648,
                -2147483649,
            ])),
            10 => J::UInt(*r.pick(&[u64::MAX, 9223372036854775808, 18446744073709551614])),
            _ => J::Float(*r.pick(&[
                -0.0,
                5e-324,
                1e300,
                -1.7976931348623157e308,
                1e-7,
                123456789.125,
                0.30000000000000004,
            ])),
        }
    }

    /// A random document.  `depth` bounds nesting, `budget` bounds node count.
    pub fn gen(r: &mut Rng, depth: u32, budget: &mut i32, edgy: bool) -> J {
        *budget -= 1;
        if depth == 0 || *budget <= 0 || r.chance(1, 4) {
            return J::scalar(r, edgy);
        }
        match r.below(5) {
            0 | 1 => {
                // array; often homogeneous so that sort/max/sum succeed
                let n = r.below(6);
                let style = r.below(5);
                let mut v = Vec::new();
                for i in 0..n {
                    if *budget <= 0 {
                        break;
                    }
                    v.push(match style {
                        0 => {
                            *budget -= 1;
                            // equal-comparing but distinguishable numbers (0 / 0.0 / -0.0, 1 / 1.0)
                            // are where ordering and equality code paths can be told apart
                            if r.chance(1, 5) {
                                r.pick(&[J::Int(0), J::Float(0.0), J::Float(-0.0), J::Float(1.0), J::Int(1), J::Float(1e308), J::Float(1e308), J::Float(-1e308)]).clone()
                            } else {
                                J::Int(r.range(-3, 12))
                            }
                        }
                        1 => {
                            *budget -= 1;
                            J::Str((*r.pick(STRS)).to_string())
                        }
                        2 => {
                            // array of records with common keys; one record may switch type
                            *budget -= 3;
                            let odd = r.chance(1, 6);
                            J::Obj(vec![
                                (
                                    "k".to_string(),
                                    if odd {
                                        J::Str("odd".into())
                                    } else {
                                        J::Int(r.range(0, 9))
                                    },
                                ),
                                ("n".to_string(), J::Str((*r.pick(STRS)).to_string())),
                                ("id".to_string(), J::Int(i as i64)),
                            ])
                        }
                        _ => J::gen(r, depth - 1, budget, edgy),
                    });
                }
                J::Arr(v)
            }
            _ => {
                let many = r.chance(1, 25);
                let n = if many { 18 + r.below(10) } else { r.below(5) };
                let mut m: Vec<(String, J)> = Vec::new();
                for i in 0..n {
                    if *budget <= 0 && !many {
                        break;
                    }
                    let k = if many {
                        format!("k{:02}", (i * 7) % 31)
                    } else if r.chance(1, 14) {
                        (*r.pick(ODD_KEYS)).to_string()
                    } else {
                        (*r.pick(KEYS)).to_string()
                    };
                    if m.iter().any(|(kk, _)| *kk == k) {
                        continue;
                    }
                    let v = J::gen(r, depth - 1, budget, edgy);
                    m.push((k, v));
                }
                J::Obj(m)
            }
        }
    }

    pub fn gen_doc(r: &mut Rng) -> J {
        let depth = 1 + r.below(4) as u32;
        let mut budget = 6 + r.below(25) as i32;
        let edgy = r.chance(1, 5);
        // top level is usually a container
        let mut tries = 0;
        loop {
            let mut b = budget;
            let j = J::gen(r, depth, &mut b, edgy);
            tries += 1;
            if tries > 3 || matches!(j, J::Arr(_) | J::Obj(_)) || r.chance(1, 6) {
                budget = b;
                let _ = budget;
                return j;
            }
        }
    }
}

/// Names of extra (simulator-registered) functions an expression may call.
#[derive(Clone, Debug, Default)]
pub struct ExtraFns {
    /// unary identity-like functions, e.g. vfail / vtick
    pub unary: Vec<String>,
}

/// Grammar-directed expression text generator.
pub struct ExprGen<'a> {
    pub r: &'a mut Rng,
    pub extra: &'a ExtraFns,
    /// probability (per cent) that a function slot is filled by an extra fn
    pub extra_pct: u32,
    /// allow constructs that usually fail at run time
    pub failing_pct: u32,
}

const BUILTIN_1: &[&str] = &[
    "abs", "avg", "ceil", "floor", "keys", "length", "max", "min", "not_null", "reverse", "sort",
    "sum", "to_array", "to_number", "to_string", "type", "values", "merge",
];

impl<'a> ExprGen<'a> {
    pub fn new(r: &'a mut Rng, extra: &'a ExtraFns) -> Self {
        ExprGen {
            r,
            extra,
            extra_pct: 25,
            failing_pct: 10,
        }
    }

    fn key(&mut self) -> String {
        let k = *self.r.pick(KEYS);
        if self.r.chance(1, 8) {
            format!("\"{}\"", k)
        } else {
            k.to_string()
        }
    }

    fn literal(&mut self) -> String {
        match self.r.below(9) {
            0 => "`1`".into(),
            1 => format!("`{}`", self.r.range(-3, 12)),
            2 => format!("'{}'", self.r.pick(&["x", "y", "abc", "", "b", "k", "n", "odd"])),
            3 => "`[1, 2, 3]`".into(),
            4 => "`{\"a\": 1, \"b\": [true, null]}`".into(),
            5 => "`\"x\"`".into(),
            6 => (*self.r.pick(&[
                "`null`", "`true`", "`false`", "`[]`", "`{}`", "`0`", "`-0.0`", "`0.0`", "`1.0`", "'a b'", "'two  spaces'",
                "' lead'", "'tab\there'", "`{\"a\": null}`", "`9007199254740993`", "`18446744073709551615`", "'A b'",
            ]))
            .into(),
            7 => "`[\"b\", \"a\", \"c\"]`".into(),
            _ => "`1.5`".into(),
        }
    }

    fn num(&mut self) -> String {
        if self.r.chance(1, 14) {
            // long number tokens (7-10 digits): harmless as indexes, but they exercise the
            // number lexer's buffers and the i32 edges
            (*self.r.pick(&["1000000", "12345678", "2147483647", "-2147483647", "99999999", "-1000000"])).to_string()
        } else {
            self.r.range(-4, 5).to_string()
        }
    }

    fn slice(&mut self) -> String {
        let mut s = String::from("[");
        if self.r.chance(1, 2) {
            s.push_str(&self.num());
        }
        s.push(':');
        if self.r.chance(1, 2) {
            s.push_str(&self.num());
        }
        if self.r.chance(1, 2) {
            s.push(':');
            if self.r.chance(3, 4) {
                let step = if self.r.chance(self.failing_pct, 100) {
                    0
                } else {
                    *self.r.pick(&[1, 2, -1, -2, 3])
                };
                s.push_str(&step.to_string());
            }
        }
        s.push(']');
        s
    }

    /// something that may follow a '.'
    fn dot_rhs(&mut self, d: u32) -> String {
        match self.r.below(10) {
            0..=5 => self.key(),
            6 => "*".into(),
            7 if d > 0 => self.multi_list(d - 1),
            8 if d > 0 => self.multi_hash(d - 1),
            9 if d > 0 => self.func(d - 1),
            _ => self.key(),
        }
    }

    fn multi_list(&mut self, d: u32) -> String {
        let n = 1 + self.r.below(3);
        let parts: Vec<String> = (0..n).map(|_| self.expr(d)).collect();
        format!("[{}]", parts.join(", "))
    }

    fn multi_hash(&mut self, d: u32) -> String {
        let n = 1 + self.r.below(3);
        let parts: Vec<String> = (0..n)
            .map(|_| {
                let k = *self.r.pick(KEYS);
                format!("{}: {}", k, self.expr(d))
            })
            .collect();
        format!("{{{}}}", parts.join(", "))
    }

    fn wrap_extra(&mut self, inner: String) -> String {
        if !self.extra.unary.is_empty() && self.r.chance(self.extra_pct, 100) {
            let f = self.r.pick(&self.extra.unary).clone();
            format!("{}({})", f, inner)
        } else {
            inner
        }
    }

    pub fn func(&mut self, d: u32) -> String {
        let d1 = d.saturating_sub(1);
        if !self.extra.unary.is_empty() && self.r.chance(self.extra_pct, 100) {
            let f = self.r.pick(&self.extra.unary).clone();
            return format!("{}({})", f, self.expr(d1));
        }
        match self.r.below(14) {
            0 => {
                let e = self.expr(d1);
                let body = self.wrap_extra("@".into());
                let body = if self.r.chance(1, 2) {
                    format!("abs({})", body)
                } else {
                    body
                };
                format!("map(&{}, {})", body, e)
            }
            1 => {
                let f = *self.r.pick(&["sort_by", "max_by", "min_by"]);
                let e = self.expr(d1);
                let k = self.key();
                let k = self.wrap_extra(k);
                format!("{}({}, &{})", f, e, k)
            }
            2 => format!("contains({}, {})", self.expr(d1), self.atom(d1)),
            3 => {
                let f = *self.r.pick(&["starts_with", "ends_with"]);
                format!("{}({}, {})", f, self.expr(d1), self.literal())
            }
            4 => format!("join({}, {})", self.literal(), self.expr(d1)),
            5 => format!("merge({}, {})", self.expr(d1), self.expr(d1)),
            6 => format!("not_null({}, {})", self.expr(d1), self.expr(d1)),
            7 if self.r.chance(self.failing_pct, 100) => {
                // unknown function / wrong arity: fails when reached
                match self.r.below(3) {
                    0 => format!("nosuchfn({})", self.expr(d1)),
                    1 => format!("length({}, {})", self.expr(d1), self.expr(d1)),
                    _ => "abs()".to_string(),
                }
            }
            _ => {
                let f = *self.r.pick(BUILTIN_1);
                format!("{}({})", f, self.expr(d1))
            }
        }
    }

    fn atom(&mut self, d: u32) -> String {
        match self.r.below(12) {
            0..=4 => self.key(),
            5 => "@".into(),
            6 | 7 => self.literal(),
            8 if d > 0 => self.func(d),
            9 if d > 0 => self.multi_list(d - 1),
            10 if d > 0 => self.multi_hash(d - 1),
            11 if d > 0 => format!("({})", self.expr(d - 1)),
            _ => self.key(),
        }
    }

    /// postfix chain on an atom
    fn chain(&mut self, d: u32) -> String {
        let mut s = self.atom(d);
        let n = self.r.below(4);
        for _ in 0..n {
            match self.r.below(11) {
                0..=3 => {
                    s.push('.');
                    let rhs = self.dot_rhs(d.saturating_sub(1));
                    s.push_str(&rhs);
                }
                4 => s.push_str(&format!("[{}]", self.num())),
                5 => s.push_str(&self.slice()),
                6 => s.push_str("[]"),
                7 => s.push_str("[*]"),
                8 if d > 0 => {
                    let p = self.pred(d - 1);
                    s.push_str(&format!("[?{}]", p));
                }
                9 => s.push_str(".*"),
                _ => {
                    s.push('.');
                    s.push_str(&self.key());
                }
            }
        }
        s
    }

    fn pred(&mut self, d: u32) -> String {
        match self.r.below(6) {
            0 | 1 => {
                let op = *self.r.pick(&["==", "!=", "<", "<=", ">", ">="]);
                let l = self.key();
                let l = self.wrap_extra(l);
                format!("{} {} {}", l, op, self.literal())
            }
            2 => self.key(),
            3 => format!("!{}", self.key()),
            4 if d > 0 => format!("{} && {}", self.pred(d - 1), self.pred(d - 1)),
            _ => {
                let k = self.key();
                let w = self.wrap_extra(k);
                format!("{} > `2`", w)
            }
        }
    }

    pub fn expr(&mut self, d: u32) -> String {
        if d == 0 {
            return self.chain(0);
        }
        match self.r.below(16) {
            0..=6 => self.chain(d),
            7 => format!("{} | {}", self.expr(d - 1), self.expr(d - 1)),
            8 => format!("{} || {}", self.expr(d - 1), self.expr(d - 1)),
            9 => format!("{} && {}", self.expr(d - 1), self.expr(d - 1)),
            10 => format!("!{}", self.chain(d - 1)),
            11 => {
                let op = *self.r.pick(&["==", "!=", "<", "<=", ">", ">="]);
                format!("{} {} {}", self.chain(d - 1), op, self.chain(d - 1))
            }
            12 => self.func(d),
            13 => {
                let inner = self.chain(d - 1);
                self.wrap_extra(inner)
            }
            14 => format!("&{}", self.chain(d - 1)),
            _ => self.chain(d),
        }
    }

    /// An expression built to fail *midway*: it succeeds on a prefix of the
    /// elements and fails at a later one (type switch, unknown function
    /// behind a filter, zero step behind a projection).
    pub fn midway(&mut self) -> String {
        let f = if self.extra.unary.is_empty() {
            "abs".to_string()
        } else {
            self.r.pick(&self.extra.unary).clone()
        };
        match self.r.below(12) {
            // guard idiom: the left operand of `&&` screens out the elements on which the
            // right one would fail (added after seeded change c13r7_filter_selectivity: a
            // handle that has seen enough elements evaluates the operands in another order)
            8 => format!("xs[?type(k) == 'number' && {}(k) >= `{}`].id", f, self.r.below(3)),
            9 => format!("xs[?type(k) == 'number' && abs(k) > `{}`] | length(@)", self.r.below(3)),
            10 => format!("ys[?type(@) == 'number' && {}(@) > `1`] | length(@)", f),
            11 => "xs[?!(type(k) != 'number') && abs(k) > `1` && id >= `0`].id".to_string(),
            0 => format!("map(&abs({}(@)), xs)", f),
            1 => format!("sort_by(xs, &{}(k))", f),
            2 => format!("xs[?{}(k) > `1`].id", f),
            3 => format!("xs[*].{}(k)", f),
            4 => "xs[*].abs(k)".to_string(),
            5 => format!("max_by(xs, &{}(k)).id", f),
            6 => "xs[?id > `1`] | [0].nosuchfn(@)".to_string(),
            _ => format!("[{}(a), {}(b), xs[::0]]", f, f),
        }
    }

    /// A text that (usually) does not compile.
    pub fn invalid(&mut self) -> String {
        let base = self.expr(2);
        match self.r.below(7) {
            0 => format!("{}]", base),
            1 => format!("{}.", base),
            2 => format!("{} =", base),
            3 => format!("[{}", base),
            4 => "foo[?bar".to_string(),
            5 => format!("{} `{{`", base),
            _ => {
                let mut cs: Vec<char> = base.chars().collect();
                if !cs.is_empty() {
                    let i = self.r.below(cs.len());
                    cs.remove(i);
                }
                cs.into_iter().collect()
            }
        }
    }
}

// ---------------------------------------------------------------------------
// Document-directed generation: expressions that actually select, sort,
// filter and aggregate the data of a given document, so that outcomes are
// rich values rather than `null`, and documents that are small *mutations*
// of a base document, so that one expression gives a different non-null
// result on each of them (which is what makes stale state visible).
// ---------------------------------------------------------------------------

fn ident_ok(k: &str) -> bool {
    let mut cs = k.chars();
    match cs.next() {
        Some(c) if c.is_ascii_alphabetic() || c == '_' => {}
        _ => return false,
    }
    cs.all(|c| c.is_ascii_alphanumeric() || c == '_')
}

fn field(k: &str) -> String {
    if ident_ok(k) {
        k.to_string()
    } else {
        json_str(k)
    }
}

#[derive(Clone, Copy, PartialEq, Eq, Debug)]
enum Ty {
    Null,
    Bool,
    Num,
    Str,
    ArrNum,
    ArrStr,
    ArrObj,
    ArrMixed,
    ArrEmpty,
    Obj,
}

fn ty(j: &J) -> Ty {
    match j {
        J::Null => Ty::Null,
        J::Bool(_) => Ty::Bool,
        J::Int(_) | J::UInt(_) | J::Float(_) => Ty::Num,
        J::Str(_) => Ty::Str,
        J::Obj(_) => Ty::Obj,
        J::Arr(v) if v.is_empty() => Ty::ArrEmpty,
        J::Arr(v) => {
            if v.iter().all(|x| matches!(x, J::Int(_) | J::UInt(_) | J::Float(_))) {
                Ty::ArrNum
            } else if v.iter().all(|x| matches!(x, J::Str(_))) {
                Ty::ArrStr
            } else if v.iter().filter(|x| matches!(x, J::Obj(_))).count() * 2 > v.len() {
                Ty::ArrObj
            } else {
                Ty::ArrMixed
            }
        }
    }
}

impl<'a> ExprGen<'a> {
    /// An expression relative to node `j` that mostly evaluates to real data.
    pub fn for_doc(&mut self, j: &J, d: u32) -> String {
        // walk down a random path first
        let mut path = String::new();
        let mut cur = j;
        let steps = self.r.below(4);
        for _ in 0..steps {
            match cur {
                J::Obj(m) if !m.is_empty() => {
                    let (k, v) = &m[self.r.below(m.len())];
                    if !path.is_empty() {
                        path.push('.');
                    }
                    path.push_str(&field(k));
                    cur = v;
                }
                J::Arr(v) if !v.is_empty() && self.r.chance(1, 3) => {
                    let i = self.r.below(v.len());
                    let idx = if self.r.chance(1, 4) {
                        i as i64 - v.len() as i64
                    } else {
                        i as i64
                    };
                    if path.is_empty() {
                        path.push_str(&format!("[{}]", idx));
                    } else {
                        path.push_str(&format!("[{}]", idx));
                    }
                    cur = &v[i];
                }
                _ => break,
            }
        }
        let op = self.op_on(cur, d);
        match (path.is_empty(), op) {
            (true, None) => "@".to_string(),
            (true, Some(o)) => o,
            (false, None) => path,
            (false, Some(o)) => {
                // three ways to apply the operation to what the path selects: through a pipe,
                // after a dot (wrapped), or with the path written directly as the argument -
                // they differ in how many references to the selected node are alive while
                // the function runs
                let direct = o.ends_with("(@)") && o.matches('@').count() == 1 && !path.ends_with(']');
                if direct && self.r.chance(1, 3) {
                    format!("{}{})", &o[..o.len() - 2], path)
                } else if self.r.chance(1, 2) {
                    format!("{} | {}", path, o)
                } else {
                    // apply op with `@` replaced by the path where that is a plain call
                    format!("{}.{}", path, Self::dot_safe(&o))
                }
            }
        }
    }

    /// make an arbitrary expression usable after a '.', via a multiselect wrapper
    fn dot_safe(o: &str) -> String {
        format!("[{}][0]", o)
    }

    /// An operation meaningful on the value at `j` (evaluated with `@` = j).
    fn op_on(&mut self, j: &J, d: u32) -> Option<String> {
        let w = |g: &mut Self, s: &str| -> String { g.wrap_extra(s.to_string()) };
        Some(match ty(j) {
            Ty::ArrNum => match self.r.below(14) {
                0 => "sort(@)".into(),
                1 => "reverse(@)".into(),
                2 => "max(@)".into(),
                3 => "min(@)".into(),
                4 => "sum(@)".into(),
                5 => "avg(@)".into(),
                6 => format!("@{}", self.slice()),
                7 => {
                    if self.r.chance(1, 3) {
                        format!("[?@ {} {}]", self.r.pick(&["<", "<=", ">", ">=", "==", "!="]), self.r.pick(&["`0`", "`-0.0`", "`0.0`", "`1.0`"]))
                    } else {
                        format!("[?@ > `{}`]", self.r.range(-2, 6))
                    }
                }
                8 => format!("map(&abs({}), @)", w(self, "@")),
                9 => "length(@)".into(),
                10 => format!("[*].{}", Self::dot_safe(&w(self, "@"))),
                11 => format!("contains(@, `{}`)", self.r.range(-2, 9)),
                12 => "sort(@)[-1]".into(),
                _ => format!("{}[{}]", "@", self.num()),
            },
            Ty::ArrStr => match self.r.below(9) {
                0 => "sort(@)".into(),
                1 => "reverse(@)".into(),
                2 => "join('-', @)".into(),
                3 => "max(@)".into(),
                4 => "length(@)".into(),
                5 => format!("@{}", self.slice()),
                6 => "[?@ > 'b']".into(),
                7 => "map(&length(@), @)".into(),
                _ => format!("map(&{}, @)", w(self, "@")),
            },
            Ty::ArrObj | Ty::ArrMixed => {
                // keys seen in member objects
                let mut ks: Vec<&str> = Vec::new();
                if let J::Arr(v) = j {
                    for x in v {
                        if let J::Obj(m) = x {
                            for (k, _) in m {
                                if !ks.contains(&k.as_str()) {
                                    ks.push(k);
                                }
                            }
                        }
                    }
                }
                let k = if ks.is_empty() {
                    "k".to_string()
                } else {
                    field(ks[self.r.below(ks.len())])
                };
                let k2 = if ks.is_empty() {
                    "id".to_string()
                } else {
                    field(ks[self.r.below(ks.len())])
                };
                match self.r.below(15) {
                    0 => format!("[*].{}", k),
                    1 => format!("sort_by(@, &{})", w(self, &k)),
                    2 => format!("max_by(@, &{})", w(self, &k)),
                    3 => format!("min_by(@, &{}).{}", k, k2),
                    4 => format!("[?{} > `{}`].{}", w(self, &k), self.r.range(-2, 5), k2),
                    5 => format!("[?{} == {}]", k, self.literal()),
                    6 => format!("map(&{}, @)", w(self, &k)),
                    7 => format!("[].{}", k),
                    8 => format!("@{}", self.slice()),
                    9 => format!("[*].[{}, {}]", k, k2),
                    10 => format!("[*].{{p: {}, q: {}}}", k, w(self, &k2)),
                    11 => format!("sort_by(@, &{})[*].{}", k, k2),
                    12 => "length(@)".into(),
                    13 if self.r.chance(1, 2) => {
                        // expression references as ELEMENTS of results, taken out again and used
                        (*self.r.pick(&[
                            "type(map(&(&k), @)[0])",
                            "sort_by(@, map(&(&k), @)[0])[*].k",
                            "reverse([&k, &id])[0]",
                            "values({a: &k, b: `1`})",
                            "to_array(&k)[0]",
                            "not_null(`null`, &k)",
                            "max_by(@, reverse([&id, &k])[1])",
                        ]))
                        .into()
                    }
                    _ => format!("reverse(@)[0].{}", k),
                }
            }
            Ty::ArrEmpty => (*self.r.pick(&["length(@)", "sort(@)", "@[0]", "max(@)", "[*].a"])).into(),
            Ty::Obj => {
                let ks: Vec<String> = match j {
                    J::Obj(m) => m.iter().map(|(k, _)| field(k)).collect(),
                    _ => vec![],
                };
                let k = if ks.is_empty() {
                    "a".to_string()
                } else {
                    ks[self.r.below(ks.len())].clone()
                };
                let k2 = if ks.is_empty() {
                    "b".to_string()
                } else {
                    ks[self.r.below(ks.len())].clone()
                };
                match self.r.below(12) {
                    0 => "keys(@)".into(),
                    1 => "values(@)".into(),
                    2 => "*".into(),
                    3 => format!("{{p: {}, q: {}}}", k, w(self, &k2)),
                    4 => format!("[{}, {}]", w(self, &k), k2),
                    5 => "merge(@, `{\"zz\": 1}`)".into(),
                    6 => "length(@)".into(),
                    7 => format!("{} || {}", k, k2),
                    8 => format!("{} && {}", k, k2),
                    9 => format!("not_null({}, {})", k, k2),
                    10 if d > 0 => {
                        // descend once more with a nested directed expression
                        if let J::Obj(m) = j {
                            if !m.is_empty() {
                                let (kk, vv) = &m[self.r.below(m.len())];
                                let inner = self.for_doc(vv, d - 1);
                                return Some(format!("{} | {}", field(kk), inner));
                            }
                        }
                        "to_string(@)".into()
                    }
                    _ => "to_string(@)".into(),
                }
            }
            Ty::Str => match self.r.below(8) {
                0 => "length(@)".into(),
                1 => "reverse(@)".into(),
                2 => "starts_with(@, 'a')".into(),
                3 => "to_number(@)".into(),
                4 => "contains(@, 'b')".into(),
                5 => "[@, @]".into(),
                6 => "@ == 'x'".into(),
                _ => w(self, "@"),
            },
            Ty::Num => match self.r.below(9) {
                0 => "abs(@)".into(),
                1 => "ceil(@)".into(),
                2 => "floor(@)".into(),
                3 => "to_string(@)".into(),
                4 => {
                    if self.r.chance(1, 3) {
                        format!("@ {} {}", self.r.pick(&["<", "<=", ">", ">="]), self.r.pick(&["`0`", "`-0.0`", "`0.0`", "`1.0`"]))
                    } else {
                        format!("@ > `{}`", self.r.range(-2, 6))
                    }
                }
                5 => "[@, @]".into(),
                6 => "{v: @}".into(),
                7 => format!("@ == `{}`", self.r.range(-2, 6)),
                _ => w(self, "@"),
            },
            Ty::Null | Ty::Bool => {
                if self.r.chance(1, 2) {
                    return None;
                }
                (*self.r.pick(&["type(@)", "!@", "@ || `1`", "to_array(@)", "to_string(@)"])).into()
            }
        })
    }
}

impl J {
    fn count_nodes(&self) -> usize {
        self.nodes()
    }

    fn mutate_at(&mut self, target: &mut usize, r: &mut Rng) -> bool {
        if *target == 0 {
            self.mutate_here(r);
            return true;
        }
        *target -= 1;
        match self {
            J::Arr(v) => {
                for x in v.iter_mut() {
                    if x.mutate_at(target, r) {
                        return true;
                    }
                }
                false
            }
            J::Obj(m) => {
                for (_, x) in m.iter_mut() {
                    if x.mutate_at(target, r) {
                        return true;
                    }
                }
                false
            }
            _ => false,
        }
    }

    fn mutate_here(&mut self, r: &mut Rng) {
        match self {
            J::Int(i) => {
                *self = match r.below(6) {
                    0 => J::Str("odd".into()), // type switch: makes sort_by / abs fail midway
                    1 => J::Float(*i as f64 + 0.5),
                    2 => J::Null,
                    _ => J::Int(i.wrapping_add(r.range(-5, 5)).wrapping_add(1)),
                }
            }
            J::UInt(_) | J::Float(_) => *self = J::Int(r.range(-3, 12)),
            J::Str(s) => {
                *self = match r.below(5) {
                    0 => J::Int(r.range(0, 9)),
                    1 => J::Str(format!("{}b", s)),
                    _ => J::Str((*r.pick(STRS)).to_string()),
                }
            }
            J::Bool(b) => *self = J::Bool(!*b),
            J::Null => *self = J::Int(r.range(0, 5)),
            J::Arr(v) => match r.below(6) {
                0 if !v.is_empty() => {
                    let i = r.below(v.len());
                    v.remove(i);
                }
                1 if !v.is_empty() => {
                    let i = r.below(v.len());
                    let x = v[i].clone();
                    v.push(x);
                }
                2 => v.reverse(),
                3 if v.len() > 1 => r.shuffle(v),
                4 if !v.is_empty() => {
                    let i = r.below(v.len());
                    v[i].mutate_here(r);
                }
                _ => {
                    let x = if v.is_empty() {
                        J::Int(r.range(-3, 9))
                    } else {
                        let mut y = v[r.below(v.len())].clone();
                        if !matches!(y, J::Arr(_)) {
                            y.mutate_here(r);
                        }
                        y
                    };
                    v.push(x);
                }
            },
            J::Obj(m) => match r.below(4) {
                0 if !m.is_empty() => {
                    let i = r.below(m.len());
                    m.remove(i);
                }
                1 if !m.is_empty() => {
                    let i = r.below(m.len());
                    if !matches!(m[i].1, J::Obj(_)) {
                        m[i].1.mutate_here(r);
                    } else {
                        m[i].1 = J::Int(r.range(0, 9));
                    }
                }
                _ => {
                    let k = (*r.pick(KEYS)).to_string();
                    if !m.iter().any(|(kk, _)| *kk == k) {
                        m.push((k, J::Int(r.range(-3, 12))));
                    }
                }
            },
        }
    }

    /// A copy of `self` with 1..=3 small random edits.
    pub fn mutated(&self, r: &mut Rng) -> J {
        let mut j = self.clone();
        for _ in 0..(1 + r.below(3)) {
            let n = j.count_nodes();
            let mut t = r.below(n);
            j.mutate_at(&mut t, r);
        }
        j
    }
}
