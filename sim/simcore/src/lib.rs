//! Shared simulator core: the one PRNG, stable hashing, document and
//! expression generators.  No dependency on the system under test and no
//! dependency on any external crate, so the random stream is identical across
//! toolchains, feature builds and Miri.

pub mod gen;
pub mod hash;
pub mod rng;

pub use gen::{ExprGen, ExtraFns, J};
pub use hash::{avalanche, fnv, Hasher64};
pub use rng::{mix, Rng};

/// Default seed used when VERIF_SEED is absent (fixed so that the unchanged
/// tree is always explored the same way).
pub const DEFAULT_SEED: u64 = 20261004;

/// Escape a string as a JSON string literal (used by hand-written JSON
/// emitters so that logging never goes through the SUT).
pub fn json_str(s: &str) -> String {
    let mut out = String::with_capacity(s.len() + 2);
    out.push('"');
    for c in s.chars() {
        match c {
            '"' => out.push_str("\\\""),
            '\\' => out.push_str("\\\\"),
            '\n' => out.push_str("\\n"),
            '\r' => out.push_str("\\r"),
            '\t' => out.push_str("\\t"),
            c if (c as u32) < 0x20 => out.push_str(&format!("\\u{:04x}", c as u32)),
            c => out.push(c),
        }
    }
    out.push('"');
    out
}
