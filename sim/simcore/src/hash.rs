//! Stable 64-bit hashing (FNV-1a + avalanche).  std's SipHash is randomly
//! keyed per process, so it must never enter a log.

pub fn avalanche(mut z: u64) -> u64 {
    z = (z ^ (z >> 30)).wrapping_mul(0xBF58_476D_1CE4_E5B9);
    z = (z ^ (z >> 27)).wrapping_mul(0x94D0_49BB_1331_11EB);
    z ^ (z >> 31)
}

pub fn fnv(bytes: &[u8]) -> u64 {
    let mut h = Hasher64::new();
    h.bytes(bytes);
    h.finish()
}

#[derive(Clone, Copy, Debug)]
pub struct Hasher64(u64);

impl Default for Hasher64 {
    fn default() -> Self {
        Self::new()
    }
}

impl Hasher64 {
    pub fn new() -> Self {
        Hasher64(0xcbf2_9ce4_8422_2325)
    }
    #[inline]
    pub fn bytes(&mut self, b: &[u8]) -> &mut Self {
        for &x in b {
            self.0 ^= x as u64;
            self.0 = self.0.wrapping_mul(0x0000_0100_0000_01B3);
        }
        // length / separator so that ("ab","c") != ("a","bc")
        self.0 ^= 0xff;
        self.0 = self.0.wrapping_mul(0x0000_0100_0000_01B3);
        self
    }
    #[inline]
    pub fn str(&mut self, s: &str) -> &mut Self {
        self.bytes(s.as_bytes())
    }
    #[inline]
    pub fn u64(&mut self, v: u64) -> &mut Self {
        self.bytes(&v.to_le_bytes())
    }
    pub fn finish(&self) -> u64 {
        avalanche(self.0)
    }
}
