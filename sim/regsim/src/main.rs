//! regsim — seeded registry-history simulator for C15.
//!
//!   regsim run  --seed S --start A --count N --out FILE [--viol-dir DIR] [--samples K]
//!   regsim exec --file REPLAY.json [--verbose]
//!   regsim gen  --seed S --index I
//!
//! A history is a sequence of register / deregister / register-builtins /
//! new-runtime / get / call operations over up to three runtimes.  After every
//! operation the real `Runtime` is compared with a reference model (an
//! ordered map per runtime plus a tiny evaluator for the call expressions the
//! generator emits).  Registered functions are *recording functions*: they
//! log which function ran and with what argument vector.

use jmespath::ast::Ast;
use jmespath::functions::{ArgumentType, CustomFunction, Function, Signature};
use jmespath::{Context, ErrorReason, JmespathError, Rcvar, Runtime, RuntimeError, Variable};
use serde_json::{json, Value};
use simcore::{mix, Hasher64, Rng};
use std::collections::{BTreeMap, BTreeSet};
use std::io::Write;
use std::panic::{catch_unwind, AssertUnwindSafe};
use std::sync::atomic::{AtomicU32, Ordering::Relaxed};
use std::sync::{Arc, Mutex};

// ------------------------------------------------------------------ vocabulary

const N_RT: usize = 3;
/// names an expression can call
const CALL_NAMES: &[&str] = &[
    "abs", "length", "not_null", "map", "type", "to_array", "f0", "g1", "Abs", "abs_", "ABS", "h",
];
/// Families of longer names: equal length and a long common suffix or prefix (a key that
/// keeps only part of the name confuses them), and classic equal-hash pairs of the common
/// 32-bit FNV-1a hash (a key that is only a hash confuses those).
const LONG_NAMES: &[&str] = &[
    "north_region_total_sum", "south_region_total_sum", "v1_customer_display_name", "v2_customer_display_name",
    "customer_display_name_v1", "customer_display_name_v2", "a_very_long_function_name_with_many_words_a",
    "a_very_long_function_name_with_many_words_b", "costarring", "liquid", "declinate", "macallums", "altarage", "zinke",
];

/// names only ever looked up / registered, never called (not valid identifiers or irrelevant)
const ODD_NAMES: &[&str] = &[" abs", "abs ", "", "keys", "nosuch", "LENGTH", "f0 ", "ab"];
const BUILTINS: &[&str] = &[
    "abs", "avg", "ceil", "contains", "ends_with", "floor", "join", "keys", "length", "map", "min", "max",
    "max_by", "min_by", "merge", "not_null", "reverse", "sort", "sort_by", "starts_with", "sum", "to_array",
    "to_number", "to_string", "type", "values",
];

#[derive(Clone, Debug, PartialEq)]
enum SigT {
    Any,
    Number,
    String,
    Expref,
    Array,
    ArrayNumber,
    NumOrStr,
    Object,
    Bool,
    Null,
    /// array[array[number]]
    ArrayArrayNumber,
    /// array[number] | string
    ArrNumOrStr,
    /// array[number|string]
    ArrayOfNumOrStr,
    /// expref|number
    ExprefOrNum,
    /// array[number]|array[string]
    ArrNumOrArrStr,
}

const SIGTS: &[SigT] = &[
    SigT::Any,
    SigT::Number,
    SigT::String,
    SigT::Expref,
    SigT::Array,
    SigT::ArrayNumber,
    SigT::NumOrStr,
    SigT::Object,
    SigT::Bool,
    SigT::Null,
    SigT::ArrayArrayNumber,
    SigT::ArrNumOrStr,
    SigT::ArrayOfNumOrStr,
    SigT::ExprefOrNum,
    SigT::ArrNumOrArrStr,
];

impl SigT {
    fn name(&self) -> &'static str {
        match self {
            SigT::Any => "any",
            SigT::Number => "number",
            SigT::String => "string",
            SigT::Expref => "expref",
            SigT::Array => "array",
            SigT::ArrayNumber => "array[number]",
            SigT::NumOrStr => "number|string",
            SigT::Object => "object",
            SigT::Bool => "boolean",
            SigT::Null => "null",
            SigT::ArrayArrayNumber => "array[array[number]]",
            SigT::ArrNumOrStr => "array[number]|string",
            SigT::ArrayOfNumOrStr => "array[number|string]",
            SigT::ExprefOrNum => "expref|number",
            SigT::ArrNumOrArrStr => "array[number]|array[string]",
        }
    }
    fn from_name(s: &str) -> Option<SigT> {
        SIGTS.iter().find(|t| t.name() == s).cloned()
    }
    fn to_arg(&self) -> ArgumentType {
        match self {
            SigT::Any => ArgumentType::Any,
            SigT::Number => ArgumentType::Number,
            SigT::String => ArgumentType::String,
            SigT::Expref => ArgumentType::Expref,
            SigT::Array => ArgumentType::Array,
            SigT::ArrayNumber => ArgumentType::TypedArray(Box::new(ArgumentType::Number)),
            SigT::NumOrStr => ArgumentType::Union(vec![ArgumentType::Number, ArgumentType::String]),
            SigT::Object => ArgumentType::Object,
            SigT::Bool => ArgumentType::Bool,
            SigT::Null => ArgumentType::Null,
            SigT::ArrayArrayNumber => ArgumentType::TypedArray(Box::new(ArgumentType::TypedArray(Box::new(
                ArgumentType::Number,
            )))),
            SigT::ArrNumOrStr => ArgumentType::Union(vec![
                ArgumentType::TypedArray(Box::new(ArgumentType::Number)),
                ArgumentType::String,
            ]),
            SigT::ArrayOfNumOrStr => ArgumentType::TypedArray(Box::new(ArgumentType::Union(vec![
                ArgumentType::Number,
                ArgumentType::String,
            ]))),
            SigT::ExprefOrNum => ArgumentType::Union(vec![ArgumentType::Expref, ArgumentType::Number]),
            SigT::ArrNumOrArrStr => ArgumentType::Union(vec![
                ArgumentType::TypedArray(Box::new(ArgumentType::Number)),
                ArgumentType::TypedArray(Box::new(ArgumentType::String)),
            ]),
        }
    }
    /// The reference model's own notion of "argument satisfies type".
    fn accepts(&self, v: &Variable) -> bool {
        match self {
            SigT::Any => true,
            SigT::Number => matches!(v, Variable::Number(_)),
            SigT::String => matches!(v, Variable::String(_)),
            SigT::Expref => matches!(v, Variable::Expref(_)),
            SigT::Array => matches!(v, Variable::Array(_)),
            SigT::ArrayNumber => match v {
                Variable::Array(a) => a.iter().all(|x| matches!(**x, Variable::Number(_))),
                _ => false,
            },
            SigT::NumOrStr => matches!(v, Variable::Number(_) | Variable::String(_)),
            SigT::Object => matches!(v, Variable::Object(_)),
            SigT::Bool => matches!(v, Variable::Bool(_)),
            SigT::Null => matches!(v, Variable::Null),
            SigT::ArrayArrayNumber => match v {
                Variable::Array(a) => a.iter().all(|x| SigT::ArrayNumber.accepts(x)),
                _ => false,
            },
            SigT::ArrNumOrStr => SigT::ArrayNumber.accepts(v) || SigT::String.accepts(v),
            SigT::ArrayOfNumOrStr => match v {
                Variable::Array(a) => a.iter().all(|x| SigT::NumOrStr.accepts(x)),
                _ => false,
            },
            SigT::ExprefOrNum => matches!(v, Variable::Expref(_) | Variable::Number(_)),
            SigT::ArrNumOrArrStr => match v {
                Variable::Array(a) => {
                    a.iter().all(|x| matches!(**x, Variable::Number(_))) || a.iter().all(|x| matches!(**x, Variable::String(_)))
                }
                _ => false,
            },
        }
    }
}

#[derive(Clone, Debug, PartialEq)]
struct Sig {
    inputs: Vec<SigT>,
    variadic: Option<SigT>,
}

/// A recording function to register.
#[derive(Clone, Debug, PartialEq)]
struct FnSpec {
    /// unique instance id within the history
    id: u32,
    /// None: bare closure; Some: CustomFunction with this signature
    sig: Option<Sig>,
    /// the n-th invocation (1-based) of this instance returns an injected error
    fail_on: Option<u32>,
}

#[derive(Clone, Debug, PartialEq)]
enum Op {
    Register { rt: usize, name: String, f: FnSpec },
    Deregister { rt: usize, name: String },
    RegisterBuiltins { rt: usize },
    NewRuntime { rt: usize },
    Get { rt: usize, name: String },
    Call { rt: usize, expr: String, doc: String },
    /// compile through `jmespath::compile` (the shared default runtime): whatever was
    /// registered on custom runtimes must not leak into it
    CallDefault { expr: String, doc: String },
}

impl Op {
    fn kind(&self) -> &'static str {
        match self {
            Op::Register { .. } => "register",
            Op::Deregister { .. } => "deregister",
            Op::RegisterBuiltins { .. } => "register_builtins",
            Op::NewRuntime { .. } => "new_runtime",
            Op::Get { .. } => "get",
            Op::Call { .. } => "call",
            Op::CallDefault { .. } => "call_default",
        }
    }
}

fn sig_json(s: &Option<Sig>) -> Value {
    match s {
        None => Value::Null,
        Some(s) => json!({
            "inputs": s.inputs.iter().map(|t| t.name()).collect::<Vec<_>>(),
            "variadic": s.variadic.as_ref().map(|t| t.name()),
        }),
    }
}

fn op_to_json(op: &Op) -> Value {
    match op {
        Op::Register { rt, name, f } => json!({"op":"register","rt":rt,"name":name,
            "fn":{"id":f.id,"signature":sig_json(&f.sig),"fail_on":f.fail_on}}),
        Op::Deregister { rt, name } => json!({"op":"deregister","rt":rt,"name":name}),
        Op::RegisterBuiltins { rt } => json!({"op":"register_builtins","rt":rt}),
        Op::NewRuntime { rt } => json!({"op":"new_runtime","rt":rt}),
        Op::Get { rt, name } => json!({"op":"get","rt":rt,"name":name}),
        Op::Call { rt, expr, doc } => json!({"op":"call","rt":rt,"expr":expr,"doc":doc}),
        Op::CallDefault { expr, doc } => json!({"op":"call_default","expr":expr,"doc":doc}),
    }
}

fn op_from_json(v: &Value) -> Result<Op, String> {
    let s = |k: &str| -> Result<String, String> {
        v.get(k)
            .and_then(|x| x.as_str())
            .map(|x| x.to_string())
            .ok_or_else(|| format!("missing {} in {}", k, v))
    };
    let rt = v.get("rt").and_then(|x| x.as_u64()).unwrap_or(0) as usize % N_RT;
    Ok(match s("op")?.as_str() {
        "register" => {
            let f = v.get("fn").ok_or("missing fn")?;
            let sig = match f.get("signature") {
                Some(sv) if sv.is_object() => Some(Sig {
                    inputs: sv
                        .get("inputs")
                        .and_then(|x| x.as_array())
                        .map(|a| {
                            a.iter()
                                .filter_map(|t| t.as_str().and_then(SigT::from_name))
                                .collect()
                        })
                        .unwrap_or_default(),
                    variadic: sv.get("variadic").and_then(|x| x.as_str()).and_then(SigT::from_name),
                }),
                _ => None,
            };
            Op::Register {
                rt,
                name: s("name")?,
                f: FnSpec {
                    id: f.get("id").and_then(|x| x.as_u64()).unwrap_or(0) as u32,
                    sig,
                    fail_on: f.get("fail_on").and_then(|x| x.as_u64()).map(|x| x as u32),
                },
            }
        }
        "deregister" => Op::Deregister { rt, name: s("name")? },
        "register_builtins" => Op::RegisterBuiltins { rt },
        "new_runtime" => Op::NewRuntime { rt },
        "get" => Op::Get { rt, name: s("name")? },
        "call" => Op::Call {
            rt,
            expr: s("expr")?,
            doc: s("doc")?,
        },
        "call_default" => Op::CallDefault {
            expr: s("expr")?,
            doc: s("doc")?,
        },
        o => return Err(format!("unknown op {}", o)),
    })
}

// ------------------------------------------------------------------ recording functions

/// One invocation observed inside a recording function.
#[derive(Clone, Debug, PartialEq, Eq, PartialOrd, Ord)]
struct Rec {
    id: u32,
    args: Vec<String>,
}

type Log = Arc<Mutex<Vec<Rec>>>;

fn render_arg(v: &Rcvar) -> String {
    format!("{:?}", v)
}

/// What a recording function returns: ["F<id>", arg0', arg1', ...] where an
/// expref argument is shown as the string "&" followed by its tree.
fn recorded_value(id: u32, args: &[Rcvar]) -> Rcvar {
    let mut out = vec![Rcvar::new(Variable::String(format!("F{}", id)))];
    for a in args {
        out.push(match &**a {
            Variable::Expref(ast) => Rcvar::new(Variable::String(format!("&{:?}", ast))),
            _ => a.clone(),
        });
    }
    Rcvar::new(Variable::Array(out))
}

fn injected_error(id: u32, n: u32) -> JmespathError {
    JmespathError::new(
        "injected",
        1,
        ErrorReason::Parse(format!("injected failure of F{} at its invocation {}", id, n)),
    )
}

fn make_fn(spec: &FnSpec, log: &Log) -> Box<dyn Function> {
    let id = spec.id;
    let fail_on = spec.fail_on;
    let log = log.clone();
    let count = AtomicU32::new(0);
    let body = move |args: &[Rcvar], _ctx: &mut Context<'_>| -> Result<Rcvar, JmespathError> {
        let n = count.fetch_add(1, Relaxed) + 1;
        log.lock().unwrap().push(Rec {
            id,
            args: args.iter().map(render_arg).collect(),
        });
        if fail_on == Some(n) {
            return Err(injected_error(id, n));
        }
        Ok(recorded_value(id, args))
    };
    match &spec.sig {
        None => Box::new(body),
        Some(sig) => Box::new(CustomFunction::new(
            Signature::new(
                sig.inputs.iter().map(|t| t.to_arg()).collect(),
                sig.variadic.as_ref().map(|t| t.to_arg()),
            ),
            Box::new(body),
        )),
    }
}

// ------------------------------------------------------------------ reference model

#[derive(Clone, Debug, PartialEq)]
enum Binding {
    Builtin(&'static str),
    Custom { spec: FnSpec, calls: u32 },
}

#[derive(Clone, Debug, Default)]
struct ModelRt {
    map: BTreeMap<String, Binding>,
}

#[derive(Clone, Debug, PartialEq, Eq)]
enum ErrClass {
    Unknown(String),
    NotEnough,
    TooMany,
    InvalidType,
    Injected(u32),
    /// the model does not cover this (argument form outside the reference evaluator)
    Unsupported(String),
}

fn class_of(e: &JmespathError) -> ErrClass {
    match &e.reason {
        ErrorReason::Runtime(RuntimeError::UnknownFunction(n)) => ErrClass::Unknown(n.clone()),
        ErrorReason::Runtime(RuntimeError::NotEnoughArguments { .. }) => ErrClass::NotEnough,
        ErrorReason::Runtime(RuntimeError::TooManyArguments { .. }) => ErrClass::TooMany,
        ErrorReason::Runtime(RuntimeError::InvalidType { .. }) => ErrClass::InvalidType,
        ErrorReason::Parse(m) if m.starts_with("injected failure of F") => {
            let id = m["injected failure of F".len()..]
                .split(' ')
                .next()
                .and_then(|x| x.parse().ok())
                .unwrap_or(u32::MAX);
            ErrClass::Injected(id)
        }
        other => ErrClass::Unsupported(format!("{:?}", other)),
    }
}

fn null() -> Rcvar {
    Rcvar::new(Variable::Null)
}

fn check_sig(inputs: &[SigT], variadic: &Option<SigT>, args: &[Rcvar]) -> Result<(), ErrClass> {
    if variadic.is_some() {
        if args.len() < inputs.len() {
            return Err(ErrClass::NotEnough);
        }
    } else if args.len() < inputs.len() {
        return Err(ErrClass::NotEnough);
    } else if args.len() > inputs.len() {
        return Err(ErrClass::TooMany);
    }
    for (i, a) in args.iter().enumerate() {
        let t = inputs.get(i).or(variadic.as_ref()).unwrap();
        if !t.accepts(a) {
            return Err(ErrClass::InvalidType);
        }
    }
    Ok(())
}

/// The built-in function object itself, constructed directly (no registry involved).
fn builtin_object(name: &str) -> Option<Box<dyn Function>> {
    use jmespath::functions::*;
    Some(match name {
        "abs" => Box::new(AbsFn::new()),
        "avg" => Box::new(AvgFn::new()),
        "ceil" => Box::new(CeilFn::new()),
        "contains" => Box::new(ContainsFn::new()),
        "ends_with" => Box::new(EndsWithFn::new()),
        "floor" => Box::new(FloorFn::new()),
        "join" => Box::new(JoinFn::new()),
        "keys" => Box::new(KeysFn::new()),
        "length" => Box::new(LengthFn::new()),
        "map" => Box::new(MapFn::new()),
        "min" => Box::new(MinFn::new()),
        "max" => Box::new(MaxFn::new()),
        "max_by" => Box::new(MaxByFn::new()),
        "min_by" => Box::new(MinByFn::new()),
        "merge" => Box::new(MergeFn::new()),
        "not_null" => Box::new(NotNullFn::new()),
        "reverse" => Box::new(ReverseFn::new()),
        "sort" => Box::new(SortFn::new()),
        "sort_by" => Box::new(SortByFn::new()),
        "starts_with" => Box::new(StartsWithFn::new()),
        "sum" => Box::new(SumFn::new()),
        "to_array" => Box::new(ToArrayFn::new()),
        "to_number" => Box::new(ToNumberFn::new()),
        "to_string" => Box::new(ToStringFn::new()),
        "type" => Box::new(TypeFn::new()),
        "values" => Box::new(ValuesFn::new()),
        _ => return None,
    })
}

/// What a built-in computes is not C15's business (that is C02/C06): when the
/// registry history says a name is bound to a built-in, the expected answer is
/// whatever that built-in's own function object, constructed directly, gives
/// for the same argument vector.  Only `map`, which calls back into the
/// interpreter (and so into the registry) through its expression reference,
/// keeps a small reference semantics of its own.
fn model_builtin(name: &str, args: &[Rcvar], m: &mut ModelRt, log: &mut Vec<Rec>) -> Result<Rcvar, ErrClass> {
    use SigT::*;
    if name != "map" {
        let f = builtin_object(name).ok_or_else(|| ErrClass::Unsupported(format!("builtin {}", name)))?;
        let empty = Runtime::new();
        let mut ctx = Context::new("model", &empty);
        return match catch_unwind(AssertUnwindSafe(|| f.evaluate(args, &mut ctx))) {
            Ok(Ok(v)) => Ok(v),
            Ok(Err(e)) => Err(class_of(&e)),
            Err(_) => Err(ErrClass::Unsupported("builtin panicked".into())),
        };
    }
    match name {
        "abs" => {
            check_sig(&[Number], &None, args)?;
            let f = match &*args[0] {
                Variable::Number(n) => n.as_f64().unwrap_or(0.0),
                _ => 0.0,
            };
            Ok(Rcvar::new(Variable::Number(
                serde_json::Number::from_f64(f.abs()).ok_or(ErrClass::Unsupported("nan".into()))?,
            )))
        }
        "length" => {
            if args.len() < 1 {
                return Err(ErrClass::NotEnough);
            }
            if args.len() > 1 {
                return Err(ErrClass::TooMany);
            }
            let n = match &*args[0] {
                Variable::Array(a) => a.len(),
                Variable::Object(o) => o.len(),
                Variable::String(s) => s.chars().count(),
                _ => return Err(ErrClass::InvalidType),
            };
            Ok(Rcvar::new(Variable::Number(serde_json::Number::from(n))))
        }
        "not_null" => {
            if args.is_empty() {
                return Err(ErrClass::NotEnough);
            }
            Ok(args
                .iter()
                .find(|a| !matches!(***a, Variable::Null))
                .cloned()
                .unwrap_or_else(null))
        }
        "type" => {
            check_sig(&[Any], &None, args)?;
            let t = match &*args[0] {
                Variable::Null => "null",
                Variable::String(_) => "string",
                Variable::Number(_) => "number",
                Variable::Bool(_) => "boolean",
                Variable::Array(_) => "array",
                Variable::Object(_) => "object",
                Variable::Expref(_) => "expref",
            };
            Ok(Rcvar::new(Variable::String(t.to_string())))
        }
        "to_array" => {
            check_sig(&[Any], &None, args)?;
            Ok(match &*args[0] {
                Variable::Array(_) => args[0].clone(),
                _ => Rcvar::new(Variable::Array(vec![args[0].clone()])),
            })
        }
        "map" => {
            check_sig(&[Expref, Array], &None, args)?;
            let ast = match &*args[0] {
                Variable::Expref(a) => a.clone(),
                _ => unreachable!(),
            };
            let mut out = vec![];
            if let Variable::Array(a) = &*args[1] {
                for el in a {
                    out.push(model_eval(m, &ast, el, log)?);
                }
            }
            Ok(Rcvar::new(Variable::Array(out)))
        }
        other => Err(ErrClass::Unsupported(format!("builtin {}", other))),
    }
}

/// Reference evaluator over the parsed tree, for the node kinds the generator emits.
fn model_eval(m: &mut ModelRt, node: &Ast, data: &Rcvar, log: &mut Vec<Rec>) -> Result<Rcvar, ErrClass> {
    match node {
        Ast::Identity { .. } => Ok(data.clone()),
        Ast::Literal { value, .. } => Ok(value.clone()),
        Ast::Field { name, .. } => Ok(match &**data {
            Variable::Object(o) => o.get(name).cloned().unwrap_or_else(null),
            _ => null(),
        }),
        Ast::Subexpr { lhs, rhs, .. } => {
            let l = model_eval(m, lhs, data, log)?;
            model_eval(m, rhs, &l, log)
        }
        Ast::Index { idx, .. } => Ok(match &**data {
            Variable::Array(a) if *idx >= 0 => a.get(*idx as usize).cloned().unwrap_or_else(null),
            _ => null(),
        }),
        Ast::MultiList { elements, .. } => {
            if matches!(**data, Variable::Null) {
                return Ok(null());
            }
            let mut out = vec![];
            for e in elements {
                out.push(model_eval(m, e, data, log)?);
            }
            Ok(Rcvar::new(Variable::Array(out)))
        }
        Ast::Projection { lhs, rhs, .. } => {
            let l = model_eval(m, lhs, data, log)?;
            match &*l {
                Variable::Array(a) => {
                    let mut out = vec![];
                    for el in a {
                        let v = model_eval(m, rhs, el, log)?;
                        if !matches!(*v, Variable::Null) {
                            out.push(v);
                        }
                    }
                    Ok(Rcvar::new(Variable::Array(out)))
                }
                _ => Ok(null()),
            }
        }
        Ast::Expref { ast, .. } => Ok(Rcvar::new(Variable::Expref((**ast).clone()))),
        Ast::Function { name, args, .. } => {
            let mut vals = vec![];
            for a in args {
                vals.push(model_eval(m, a, data, log)?);
            }
            match m.map.get(name).cloned() {
                None => Err(ErrClass::Unknown(name.clone())),
                Some(Binding::Builtin(b)) => model_builtin(b, &vals, m, log),
                Some(Binding::Custom { spec, .. }) => {
                    if let Some(sig) = &spec.sig {
                        check_sig(&sig.inputs, &sig.variadic, &vals)?;
                    }
                    let n = match m.map.get_mut(name) {
                        Some(Binding::Custom { calls, .. }) => {
                            *calls += 1;
                            *calls
                        }
                        _ => unreachable!(),
                    };
                    log.push(Rec {
                        id: spec.id,
                        args: vals.iter().map(render_arg).collect(),
                    });
                    if spec.fail_on == Some(n) {
                        return Err(ErrClass::Injected(spec.id));
                    }
                    Ok(recorded_value(spec.id, &vals))
                }
            }
        }
        other => Err(ErrClass::Unsupported(format!("node {:?}", other).chars().take(60).collect())),
    }
}

fn unknown_names(node: &Ast, m: &ModelRt, out: &mut BTreeSet<String>) {
    match node {
        Ast::Function { name, args, .. } => {
            if !m.map.contains_key(name) {
                out.insert(name.clone());
            }
            for a in args {
                unknown_names(a, m, out);
            }
        }
        Ast::Subexpr { lhs, rhs, .. } | Ast::Projection { lhs, rhs, .. } => {
            unknown_names(lhs, m, out);
            unknown_names(rhs, m, out);
        }
        Ast::MultiList { elements, .. } => {
            for e in elements {
                unknown_names(e, m, out);
            }
        }
        Ast::Expref { ast, .. } => unknown_names(ast, m, out),
        _ => {}
    }
}

// ------------------------------------------------------------------ generator

fn gen_sig(r: &mut Rng) -> Sig {
    let n = if r.chance(1, 8) { 3 + r.below(2) } else { r.below(3) };
    let pool = [
        SigT::Any,
        SigT::Any,
        SigT::Number,
        SigT::String,
        SigT::Expref,
        SigT::Array,
        SigT::ArrayNumber,
        SigT::NumOrStr,
        SigT::Object,
        SigT::ArrayArrayNumber,
        SigT::ArrNumOrStr,
        SigT::ArrayOfNumOrStr,
        SigT::ExprefOrNum,
        SigT::ArrNumOrArrStr,
    ];
    Sig {
        // up to 4 declared inputs
        inputs: (0..n).map(|_| r.pick(&pool).clone()).collect(),
        variadic: if r.chance(1, 3) { Some(r.pick(&pool).clone()) } else { None },
    }
}

const DOCS: &[&str] = &[
    r#"{"a": 1, "b": "x", "xs": [{"k": 1, "n": "p"}, {"k": -2, "n": "q"}, {"k": 3}], "ys": [3, -1, 2], "o": {"z": true}, "e": null}"#,
    r#"{"a": -7.5, "b": [1, 2], "xs": [], "ys": ["s", 1], "o": {}, "e": null}"#,
    r#"{"a": "str", "b": null, "xs": [{"k": "t", "n": 2}], "ys": [], "o": {"z": [1]}}"#,
    r#"[1, 2, 3]"#,
];

fn gen_arg(r: &mut Rng, depth: u32, names: &[&str]) -> String {
    match r.below(13) {
        0 => "@".into(),
        1 | 2 => (*r.pick(&["a", "b", "ys", "o", "e", "xs", "k", "n", "missing"])).to_string(),
        3 => (*r.pick(&[
            "`1`", "`-3`", "`\"lit\"`", "`[1, 2]`", "`null`", "`{\"q\": 1}`", "'raw'", "`2.5`", "`[[1, 2], [3]]`",
            "`[[1, 2], [3, \"x\"]]`", "`[1, \"s\"]`", "`[\"s\", \"t\"]`", "`[\"s\", 1, \"t\"]`", "`[[1], 2]`", "`[]`", "`[[]]`", "`[1, null]`",
        ]))
        .to_string(),
        4 => format!("&{}", r.pick(&["a", "k", "@", "n", "o.z"])),
        5 if depth > 0 => format!("&{}", gen_call(r, depth - 1, names)),
        6 | 7 if depth > 0 => gen_call(r, depth - 1, names),
        8 => "ys[0]".into(),
        9 => (*r.pick(&["o.z", "a.type(@)", "e.not_null(@, 'x')", "a | `7`", "o.to_array(@)", "b | type(@)", "missing.type(@)"])).to_string(),
        10 => "[a, b]".into(),
        _ => (*r.pick(&["a", "ys", "xs"])).to_string(),
    }
}

fn gen_call(r: &mut Rng, depth: u32, names: &[&str]) -> String {
    let name = *r.pick(names);
    // canonical, well-typed argument vectors for built-in names (so that when the
    // built-in answers, the answer is informative); sometimes arbitrary ones
    if r.chance(1, 2) {
        match name {
            "abs" => return format!("abs({})", r.pick(&["`-3`", "a", "ys[1]", "k"])),
            "length" => return format!("length({})", r.pick(&["ys", "b", "o", "xs", "`\"four\"`"])),
            "not_null" => return format!("not_null(e, {})", gen_arg(r, 0, names)),
            "map" => {
                // the expression reference may itself call a registered function: it is
                // evaluated later, by the built-in, through the expression's own runtime
                return if depth > 0 && r.chance(1, 2) {
                    format!("map(&{}, {})", gen_call(r, depth - 1, names), r.pick(&["xs", "ys"]))
                } else {
                    format!("map(&{}, {})", r.pick(&["k", "@", "n"]), r.pick(&["xs", "ys"]))
                };
            }
            "type" | "to_array" => return format!("{}({})", name, gen_arg(r, 0, names)),
            _ => {}
        }
    }
    let n = match r.below(16) {
        0 | 1 => 0,
        2..=8 => 1,
        9..=12 => 2,
        13 | 14 => 3,
        _ => 4 + r.below(6),
    };
    let args: Vec<String> = (0..n).map(|_| gen_arg(r, depth, names)).collect();
    format!("{}({})", name, args.join(", "))
}

fn gen_call_expr(r: &mut Rng, names: &[&str]) -> String {
    let depth = r.below(3) as u32;
    match r.below(10) {
        0 => format!("xs[*].{}", gen_call(r, depth, names)),
        1 => format!("[{}, {}]", gen_call(r, depth, names), gen_call(r, depth, names)),
        2 => format!("o.{}", gen_call(r, depth, names)),
        3 => format!("ys | {}", gen_call(r, depth, names)),
        // the current node is null when the call is made
        4 => format!("e.{}", gen_call(r, depth, names)),
        5 => format!("missing.{}", gen_call(r, depth, names)),
        _ => gen_call(r, depth, names),
    }
}

fn gen_history(seed: u64) -> Vec<Op> {
    let mut r = Rng::new(seed);
    let nrt = 1 + r.below(N_RT);
    let nops = 5 + r.below(36);
    let mut bulk_done = false;
    // swarm: a subset of the name pool per history, so that collisions are frequent
    let mut names: Vec<&str> = CALL_NAMES.to_vec();
    r.shuffle(&mut names);
    names.truncate(3 + r.below(5));
    // swarm: some histories use the long-name families, some register MANY names (tables
    // grow, rehash, spill out of small inline storage)
    if r.chance(1, 6) {
        let k = 2 + r.below(5);
        for _ in 0..k {
            names.push(*r.pick(LONG_NAMES));
        }
    }
    let many = r.chance(1, 12);
    let w_reg = 4 + r.below(6);
    let w_dereg = 1 + r.below(4);
    let w_builtins = r.below(3);
    let w_new = r.below(2);
    let w_get = 1 + r.below(4);
    let w_call = 6 + r.below(10);
    let total = w_reg + w_dereg + w_builtins + w_new + w_get + w_call;
    let fail_pct = [0, 20, 50][r.below(3)] as u32;
    let mut next_id = 0u32;
    let mut ops = vec![];
    // generator-side view of what is registered where (only used to aim calls)
    let mut have: Vec<BTreeSet<String>> = (0..N_RT).map(|_| BTreeSet::new()).collect();
    if r.chance(1, 2) {
        ops.push(Op::RegisterBuiltins { rt: 0 });
        have[0].extend(BUILTINS.iter().map(|b| b.to_string()));
    }
    while ops.len() < nops {
        let rt = r.below(nrt);
        if many && !bulk_done && ops.len() >= nops / 3 {
            // a burst of 40-130 distinct names on one runtime, in the middle of the history
            bulk_done = true;
            let n = 40 + r.below(90);
            for i in 0..n {
                let name = format!("fn_{}", i);
                have[rt].insert(name.clone());
                ops.push(Op::Register {
                    rt,
                    name,
                    f: FnSpec { id: next_id, sig: None, fail_on: None },
                });
                next_id += 1;
            }
            // and look a few of them up / call them / remove them again
            for _ in 0..6 {
                let name = format!("fn_{}", r.below(n));
                match r.below(3) {
                    0 => ops.push(Op::Get { rt, name }),
                    1 => ops.push(Op::Call { rt, expr: format!("{}(a)", name), doc: DOCS[0].to_string() }),
                    _ => {
                        have[rt].remove(&name);
                        ops.push(Op::Deregister { rt, name });
                    }
                }
            }
            continue;
        }
        let mut x = r.below(total);
        let any_name = |r: &mut Rng, names: &[&str]| -> String {
            if r.chance(1, 8) {
                (*r.pick(ODD_NAMES)).to_string()
            } else if r.chance(1, 10) {
                (*r.pick(BUILTINS)).to_string()
            } else {
                (*r.pick(names)).to_string()
            }
        };
        if x < w_reg {
            let sig = if r.chance(1, 2) { Some(gen_sig(&mut r)) } else { None };
            let fail_on = if r.chance(fail_pct, 100) { Some(1 + r.below(3) as u32) } else { None };
            let name = any_name(&mut r, &names);
            have[rt].insert(name.clone());
            ops.push(Op::Register {
                rt,
                name,
                f: FnSpec { id: next_id, sig, fail_on },
            });
            next_id += 1;
            continue;
        }
        x -= w_reg;
        if x < w_dereg {
            let name = if !have[rt].is_empty() && r.chance(2, 3) {
                let v: Vec<&String> = have[rt].iter().collect();
                v[r.below(v.len())].clone()
            } else {
                any_name(&mut r, &names)
            };
            have[rt].remove(&name);
            ops.push(Op::Deregister { rt, name });
            continue;
        }
        x -= w_dereg;
        if x < w_builtins {
            ops.push(Op::RegisterBuiltins { rt });
            have[rt].extend(BUILTINS.iter().map(|b| b.to_string()));
            continue;
        }
        x -= w_builtins;
        if x < w_new {
            ops.push(Op::NewRuntime { rt });
            have[rt].clear();
            continue;
        }
        x -= w_new;
        if x < w_get {
            ops.push(Op::Get {
                rt,
                name: any_name(&mut r, &names),
            });
            continue;
        }
        // aim most calls at names that are registered in this runtime right now
        let live: Vec<&str> = have[rt]
            .iter()
            .map(|s| s.as_str())
            .filter(|n| CALL_NAMES.contains(n))
            .collect();
        let expr = if !live.is_empty() && r.chance(4, 5) {
            if r.chance(1, 4) {
                let mut mixed = live.clone();
                mixed.push(names[r.below(names.len())]);
                gen_call_expr(&mut r, &mixed)
            } else {
                gen_call_expr(&mut r, &live)
            }
        } else {
            gen_call_expr(&mut r, &names)
        };
        if r.chance(1, 12) {
            ops.push(Op::CallDefault {
                expr,
                doc: (*r.pick(DOCS)).to_string(),
            });
        } else {
            ops.push(Op::Call {
                rt,
                expr,
                doc: (*r.pick(DOCS)).to_string(),
            });
        }
    }
    ops
}

// ------------------------------------------------------------------ executor

#[derive(Default)]
struct Stats {
    c: BTreeMap<String, u64>,
    states: BTreeSet<u64>,
    transitions: BTreeSet<u64>,
    shapes_nontrivial: BTreeSet<u64>,
    shapes: BTreeSet<u64>,
}
impl Stats {
    fn bump(&mut self, k: &str) {
        *self.c.entry(k.to_string()).or_insert(0) += 1;
    }
}

struct Viol {
    invariant: &'static str,
    op_index: usize,
    detail: String,
}

#[derive(Default)]
struct RunOut {
    log_hash: u64,
    shape: u64,
    nontrivial: bool,
    viol: Vec<Viol>,
    log: Vec<String>,
    calls: u32,
}

fn state_hash(models: &[ModelRt]) -> u64 {
    let mut h = Hasher64::new();
    for m in models {
        h.str("|");
        for (k, b) in &m.map {
            h.str(k);
            match b {
                Binding::Builtin(_) => h.str("B"),
                Binding::Custom { spec, .. } => h.str(if spec.sig.is_some() { "S" } else { "C" }),
            };
        }
    }
    h.finish()
}

/// Identify what a function object *is* by invoking it directly with a probe.
/// Returns "F<id>" for a recording function, "builtin:<answer>" otherwise.
fn identify(f: &dyn Function, rt: &Runtime, log: &Log, expect_sig: Option<&Sig>) -> String {
    // choose probe args that satisfy the expected signature if there is one, so
    // that a signed recording function is actually entered
    let probe_for = |t: &SigT| -> Rcvar {
        Rcvar::new(match t {
            SigT::Any | SigT::Number | SigT::NumOrStr | SigT::ExprefOrNum => Variable::Number(serde_json::Number::from(-3)),
            SigT::String => Variable::String("p".into()),
            SigT::Expref => Variable::Expref(Ast::Identity { offset: 0 }),
            SigT::Array | SigT::ArrayNumber | SigT::ArrayArrayNumber | SigT::ArrNumOrStr | SigT::ArrayOfNumOrStr | SigT::ArrNumOrArrStr => {
                Variable::Array(vec![])
            }
            SigT::Object => Variable::Object(BTreeMap::new()),
            SigT::Bool => Variable::Bool(true),
            SigT::Null => Variable::Null,
        })
    };
    let args: Vec<Rcvar> = match expect_sig {
        Some(s) => s.inputs.iter().map(probe_for).collect(),
        None => vec![Rcvar::new(Variable::Number(serde_json::Number::from(-3)))],
    };
    let mut ctx = Context::new("probe", rt);
    let before = log.lock().unwrap().len();
    let res = catch_unwind(AssertUnwindSafe(|| f.evaluate(&args, &mut ctx)));
    let mut l = log.lock().unwrap();
    if l.len() > before {
        let id = l[before].id;
        l.truncate(before);
        return format!("F{}", id);
    }
    match res {
        Ok(Ok(v)) => format!("builtin:{}", v),
        Ok(Err(e)) => format!("builtin-err:{:?}", class_of(&e)),
        Err(_) => "panic".to_string(),
    }
}

/// What the model says `identify` should report for a binding: a recording
/// function names itself; a built-in is recognised by answering the probe exactly
/// as its own, directly constructed, function object does.
fn model_identity(b: &Binding) -> String {
    match b {
        Binding::Custom { spec, .. } => format!("F{}", spec.id),
        Binding::Builtin(name) => {
            let empty = Runtime::new();
            let dummy: Log = Arc::new(Mutex::new(Vec::new()));
            match builtin_object(name) {
                Some(f) => identify(f.as_ref(), &empty, &dummy, None),
                None => "unknown-builtin".into(),
            }
        }
    }
}

static CURRENT_OP: std::sync::atomic::AtomicUsize = std::sync::atomic::AtomicUsize::new(0);
static LAST_PANIC: Mutex<String> = Mutex::new(String::new());
static PREPARING: std::sync::atomic::AtomicBool = std::sync::atomic::AtomicBool::new(false);

/// A panic that escapes a registry operation or a search is the library failing the
/// operation (a violation, located by the op in flight); a panic raised from the
/// simulator's own source is harness trouble (exit 2).
fn run_history(ops: &[Op], stats: &mut Stats, verbose: bool) -> RunOut {
    match catch_unwind(AssertUnwindSafe(|| run_history_inner(ops, stats, verbose))) {
        Ok(o) => o,
        Err(_) => {
            let at = LAST_PANIC.lock().map(|s| s.clone()).unwrap_or_default();
            if at.contains("regsim/src") || at.contains("simcore/src") || at.is_empty() || PREPARING.load(std::sync::atomic::Ordering::SeqCst) {
                die(&format!("simulator panicked at {}", at));
            }
            let i = CURRENT_OP.load(std::sync::atomic::Ordering::SeqCst);
            let mut out = RunOut::default();
            out.nontrivial = true;
            out.viol.push(Viol {
                invariant: "no-panic",
                op_index: i,
                detail: format!("the library panicked ({}) during op #{} ({})", at, i, ops.get(i).map(|o| o.kind()).unwrap_or("?")),
            });
            out
        }
    }
}

fn run_history_inner(ops: &[Op], stats: &mut Stats, verbose: bool) -> RunOut {
    let mut out = RunOut::default();
    let log: Log = Arc::new(Mutex::new(Vec::new()));
    let mut rts: Vec<Runtime> = (0..N_RT).map(|_| Runtime::new()).collect();
    let mut models: Vec<ModelRt> = (0..=N_RT).map(|_| ModelRt::default()).collect();
    for b in BUILTINS {
        models[N_RT].map.insert(b.to_string(), Binding::Builtin(b));
    }
    let mut lh = Hasher64::new();
    let mut shape = Hasher64::new();
    let mut reg_count: BTreeMap<(usize, String), u32> = BTreeMap::new();
    let mut removed: BTreeSet<(usize, String)> = BTreeSet::new();
    let mut prev_state = state_hash(&models);
    stats.states.insert(prev_state);

    macro_rules! viol {
        ($inv:expr, $i:expr, $($arg:tt)*) => {
            if out.viol.len() < 6 {
                out.viol.push(Viol { invariant: $inv, op_index: $i, detail: format!($($arg)*) });
            }
        };
    }

    let mentioned: BTreeSet<String> = ops
        .iter()
        .filter_map(|o| match o {
            Op::Register { name, .. } | Op::Deregister { name, .. } | Op::Get { name, .. } => Some(name.clone()),
            _ => None,
        })
        .collect();
    if mentioned.len() > 48 {
        stats.bump("probe.history_with_more_than_48_names");
    }
    for (i, op) in ops.iter().enumerate() {
        CURRENT_OP.store(i, std::sync::atomic::Ordering::SeqCst);
        stats.bump(&format!("op.{}", op.kind()));
        let line: String;
        match op {
            Op::Register { rt, name, f } => {
                let key = (*rt, name.clone());
                let n = reg_count.entry(key.clone()).or_insert(0);
                *n += 1;
                if *n >= 2 || removed.contains(&key) {
                    out.nontrivial = true;
                }
                if let Some(Binding::Builtin(_)) = models[*rt].map.get(name) {
                    stats.bump("probe.custom_shadows_builtin");
                    out.nontrivial = true;
                }
                rts[*rt].register_function(name, make_fn(f, &log));
                models[*rt].map.insert(
                    name.clone(),
                    Binding::Custom {
                        spec: f.clone(),
                        calls: 0,
                    },
                );
                line = format!("register rt{} {:?} F{} sig={:?} fail_on={:?}", rt, name, f.id, f.sig, f.fail_on);
                shape.str("r").u64(f.sig.is_some() as u64);
            }
            Op::Deregister { rt, name } => {
                let got = rts[*rt].deregister_function(name);
                let want = models[*rt].map.remove(name);
                let got_id = got.as_ref().map(|b| {
                    let sig = match &want {
                        Some(Binding::Custom { spec, .. }) => spec.sig.clone(),
                        _ => None,
                    };
                    identify(b.as_ref(), &rts[*rt], &log, sig.as_ref())
                });
                let want_id = want.as_ref().map(model_identity);
                if got.is_some() != want.is_some() {
                    viol!("registry-follows-history", i,
                        "deregister({:?}) on runtime {} returned {} but the name was {} according to the operations so far",
                        name, rt, if got.is_some() { "a function" } else { "None" },
                        if want.is_some() { "registered" } else { "not registered" });
                } else if got_id != want_id {
                    viol!("registry-follows-history", i,
                        "deregister({:?}) on runtime {} returned {:?} but the most recent registration of that name is {:?}",
                        name, rt, got_id, want_id);
                }
                if want.is_some() {
                    removed.insert((*rt, name.clone()));
                } else {
                    stats.bump("probe.deregister_missing");
                }
                line = format!("deregister rt{} {:?} -> {:?}", rt, name, got_id);
                shape.str("d").u64(want.is_some() as u64);
            }
            Op::RegisterBuiltins { rt } => {
                if models[*rt]
                    .map
                    .iter()
                    .any(|(k, b)| BUILTINS.contains(&k.as_str()) && matches!(b, Binding::Custom { .. }))
                {
                    stats.bump("probe.builtins_over_custom_shadow");
                    out.nontrivial = true;
                }
                rts[*rt].register_builtin_functions();
                for b in BUILTINS {
                    models[*rt].map.insert(b.to_string(), Binding::Builtin(b));
                }
                line = format!("register_builtins rt{}", rt);
                shape.str("b");
            }
            Op::NewRuntime { rt } => {
                rts[*rt] = Runtime::new();
                models[*rt] = ModelRt::default();
                reg_count.retain(|k, _| k.0 != *rt);
                removed.retain(|k| k.0 != *rt);
                line = format!("new_runtime rt{}", rt);
                shape.str("n");
            }
            Op::Get { rt, name } => {
                let want = models[*rt].map.get(name).cloned();
                let got_id = rts[*rt].get_function(name).map(|f| {
                    let sig = match &want {
                        Some(Binding::Custom { spec, .. }) => spec.sig.clone(),
                        _ => None,
                    };
                    identify(f, &rts[*rt], &log, sig.as_ref())
                });
                // a direct probe invocation counts as an invocation of that instance
                if let (Some(_), Some(Binding::Custom { calls, .. })) = (&got_id, models[*rt].map.get_mut(name)) {
                    *calls += 1;
                }
                let want_id = want.as_ref().map(model_identity);
                if got_id.is_some() != want_id.is_some() {
                    viol!("registry-follows-history", i,
                        "get_function({:?}) on runtime {} is {} but the name is {} according to the operations so far",
                        name, rt, if got_id.is_some() { "Some" } else { "None" },
                        if want_id.is_some() { "registered" } else { "not registered" });
                } else if got_id != want_id {
                    viol!("registry-follows-history", i,
                        "get_function({:?}) on runtime {} answers as {:?} but the most recent registration is {:?}",
                        name, rt, got_id, want_id);
                }
                line = format!("get rt{} {:?} -> {:?}", rt, name, got_id);
                shape.str("g").u64(want.is_some() as u64);
            }
            Op::Call { .. } | Op::CallDefault { .. } => {
                // the shared default runtime is modelled as one more runtime (index N_RT)
                // that holds exactly the built-ins and never changes
                let (rt_v, expr, doc) = match op {
                    Op::Call { rt, expr, doc } => (*rt, expr, doc),
                    Op::CallDefault { expr, doc } => (N_RT, expr, doc),
                    _ => unreachable!(),
                };
                let rt = &rt_v;
                if rt_v == N_RT {
                    stats.bump("probe.call_through_default_runtime");
                }
                out.calls += 1;
                // building the document and parsing the text are not registry matters: a
                // panic in there is harness trouble (exit 2), not a C15 violation
                PREPARING.store(true, std::sync::atomic::Ordering::SeqCst);
                let data = match Variable::from_json(doc) {
                    Ok(v) => Rcvar::new(v),
                    Err(_) => Rcvar::new(Variable::Null),
                };
                let parsed = jmespath::parse(expr);
                PREPARING.store(false, std::sync::atomic::Ordering::SeqCst);
                let ast = match parsed {
                    Ok(a) => a,
                    Err(_) => {
                        // generator slip: not a C15 matter
                        stats.bump("call.unparsable");
                        continue;
                    }
                };
                // --- real
                log.lock().unwrap().clear();
                let real = if rt_v == N_RT {
                    catch_unwind(AssertUnwindSafe(|| {
                        let e = jmespath::compile(expr)?;
                        e.search(data.clone())
                    }))
                } else {
                    let rtr = &rts[*rt];
                    catch_unwind(AssertUnwindSafe(|| {
                        let e = rtr.compile(expr)?;
                        e.search(data.clone())
                    }))
                };
                let mut real_log: Vec<Rec> = std::mem::take(&mut *log.lock().unwrap());
                // --- model
                let mut unknown = BTreeSet::new();
                unknown_names(&ast, &models[*rt], &mut unknown);
                let mut model_log = vec![];
                let model = model_eval(&mut models[*rt], &ast, &data, &mut model_log);
                let real_s = match &real {
                    Ok(Ok(v)) => format!("Ok({:?})", v),
                    Ok(Err(e)) => format!("Err({:?})", class_of(e)),
                    Err(_) => "Panic".to_string(),
                };
                let model_s = match &model {
                    Ok(v) => format!("Ok({:?})", v),
                    Err(c) => format!("Err({:?})", c),
                };
                let supported = !matches!(model, Err(ErrClass::Unsupported(_)));
                if !supported {
                    stats.bump("call.outside_model");
                    // the model's per-instance counters may now be off: resynchronise is
                    // impossible, so stop judging this history (narrow, deliberate)
                    line = format!("call rt{} {:?} outside the reference model: {}", rt, expr, model_s);
                    lh.u64(i as u64).str(&line);
                    if verbose {
                        out.log.push(format!("{:3} {}", i, line));
                    }
                    break;
                }
                let mut agree = real_s == model_s;
                if !agree {
                    // several unknown names in one expression: the statement does not fix which is met first
                    if let (Ok(Err(e)), Err(ErrClass::Unknown(_))) = (&real, &model) {
                        if let ErrClass::Unknown(n) = class_of(e) {
                            if unknown.contains(&n) && unknown.len() > 1 {
                                agree = true;
                                stats.bump("call.unknown_any_of_several");
                            }
                        }
                    }
                }
                if !agree {
                    viol!("call-follows-registry", i,
                        "{:?} on {} through runtime {}: library gave {} ; the registry history implies {} (model bindings: {})",
                        expr, doc, rt, real_s, model_s, bindings(&models[*rt], &ast));
                } else {
                    real_log.sort();
                    model_log.sort();
                    if real_log != model_log {
                        viol!("arguments-evaluated-in-source-order", i,
                            "{:?} on {} through runtime {}: recording functions saw {:?} ; the registry history and source-order evaluation imply {:?}",
                            expr, doc, rt, real_log, model_log);
                    }
                }
                match &model {
                    Ok(_) => stats.bump("call.ok"),
                    Err(ErrClass::Unknown(_)) => stats.bump("call.unknown_function"),
                    Err(ErrClass::Injected(_)) => stats.bump("fault.fired.injected_function_error"),
                    Err(ErrClass::InvalidType) | Err(ErrClass::NotEnough) | Err(ErrClass::TooMany) => {
                        stats.bump("call.signature_or_builtin_reject")
                    }
                    _ => {}
                }
                if real_log.iter().any(|r| r.args.iter().any(|a| a.starts_with("Expref("))) {
                    stats.bump("probe.expref_argument_delivered_unevaluated");
                }
                if !removed.is_empty() && unknown.iter().any(|n| removed.contains(&(*rt, n.clone()))) {
                    stats.bump("probe.call_after_remove");
                }
                line = format!("call rt{} {:?} doc={} -> {} log={:?}", rt, expr, doc, real_s, real_log);
                shape.str("c").str(match &model {
                    Ok(_) => "ok",
                    Err(ErrClass::Unknown(_)) => "unk",
                    Err(ErrClass::Injected(_)) => "inj",
                    Err(_) => "rej",
                });
            }
        }
        let st = state_hash(&models);
        stats.states.insert(st);
        let mut th = Hasher64::new();
        th.u64(prev_state).str(op.kind()).u64(st);
        stats.transitions.insert(th.finish());
        prev_state = st;
        lh.u64(i as u64).str(&line);
        if verbose {
            out.log.push(format!("{:3} {}", i, line));
        }
        // cross-invariant after every step: presence of every pool name (and, every 8th
        // step, of every name this history has ever mentioned)
        if i % 8 == 7 || i + 1 == ops.len() {
            for rt in 0..N_RT {
                for name in mentioned.iter() {
                    let real = rts[rt].get_function(name).is_some();
                    let want = models[rt].map.contains_key(name.as_str());
                    if real != want {
                        viol!("registry-follows-history", i,
                            "after op {} ({}): get_function({:?}) on runtime {} is {} but the operations so far leave it {}",
                            i, op.kind(), name, rt, if real { "Some" } else { "None" },
                            if want { "registered" } else { "unregistered" });
                    }
                }
            }
        }
        for rt in 0..N_RT {
            for name in CALL_NAMES.iter().chain(ODD_NAMES.iter()).chain(LONG_NAMES.iter()) {
                let real = rts[rt].get_function(name).is_some();
                let want = models[rt].map.contains_key(*name);
                if real != want {
                    viol!("registry-follows-history", i,
                        "after op {} ({}): get_function({:?}) on runtime {} is {} but the operations so far leave it {}",
                        i, op.kind(), name, rt, if real { "Some" } else { "None" },
                        if want { "registered" } else { "unregistered" });
                }
            }
        }
    }
    out.log_hash = lh.finish();
    out.shape = shape.finish();
    stats.shapes.insert(out.shape);
    if out.nontrivial {
        stats.shapes_nontrivial.insert(out.shape);
    }
    out
}

fn bindings(m: &ModelRt, ast: &Ast) -> String {
    let mut names = BTreeSet::new();
    fn walk(n: &Ast, out: &mut BTreeSet<String>) {
        match n {
            Ast::Function { name, args, .. } => {
                out.insert(name.clone());
                for a in args {
                    walk(a, out);
                }
            }
            Ast::Subexpr { lhs, rhs, .. } | Ast::Projection { lhs, rhs, .. } => {
                walk(lhs, out);
                walk(rhs, out);
            }
            Ast::MultiList { elements, .. } => {
                for e in elements {
                    walk(e, out);
                }
            }
            Ast::Expref { ast, .. } => walk(ast, out),
            _ => {}
        }
    }
    walk(ast, &mut names);
    names
        .iter()
        .map(|n| {
            format!(
                "{}={}",
                n,
                match m.map.get(n) {
                    None => "unregistered".to_string(),
                    Some(Binding::Builtin(_)) => "builtin".to_string(),
                    Some(Binding::Custom { spec, calls }) => format!(
                        "F{}{}(calls so far {})",
                        spec.id,
                        if spec.sig.is_some() { "[signed]" } else { "" },
                        calls
                    ),
                }
            )
        })
        .collect::<Vec<_>>()
        .join(", ")
}

// ------------------------------------------------------------------ CLI

fn arg<'a>(args: &'a [String], name: &str) -> Option<&'a str> {
    args.iter()
        .position(|a| a == name)
        .and_then(|i| args.get(i + 1))
        .map(|s| s.as_str())
}

fn die(msg: &str) -> ! {
    eprintln!("regsim: {}", msg);
    std::process::exit(2)
}

fn hist_json(seed: u64, index: u64, ops: &[Op]) -> Value {
    json!({"property":"C15","seed":seed,"index":index,"ops":ops.iter().map(op_to_json).collect::<Vec<_>>()})
}

fn main() {
    std::panic::set_hook(Box::new(|info| {
        if let Ok(mut s) = LAST_PANIC.lock() {
            *s = info.location().map(|l| format!("{}:{}", l.file(), l.line())).unwrap_or_else(|| "unknown location".into());
        }
    }));
    let args: Vec<String> = std::env::args().collect();
    match args.get(1).map(|s| s.as_str()).unwrap_or("") {
        "gen" => {
            let seed: u64 = arg(&args, "--seed").and_then(|s| s.parse().ok()).unwrap_or(simcore::DEFAULT_SEED);
            let index: u64 = arg(&args, "--index").and_then(|s| s.parse().ok()).unwrap_or(0);
            let ops = gen_history(mix(seed, index));
            println!("{}", serde_json::to_string_pretty(&hist_json(seed, index, &ops)).unwrap());
        }
        "run" => {
            let seed: u64 = arg(&args, "--seed").and_then(|s| s.parse().ok()).unwrap_or(simcore::DEFAULT_SEED);
            let start: u64 = arg(&args, "--start").and_then(|s| s.parse().ok()).unwrap_or(0);
            let count: u64 = arg(&args, "--count").and_then(|s| s.parse().ok()).unwrap_or(100);
            let samples: u64 = arg(&args, "--samples").and_then(|s| s.parse().ok()).unwrap_or(0);
            let out_path = arg(&args, "--out").unwrap_or_else(|| die("--out required"));
            let mut out = std::io::BufWriter::new(
                std::fs::File::create(out_path).unwrap_or_else(|e| die(&format!("cannot create {}: {}", out_path, e))),
            );
            let mut stats = Stats::default();
            writeln!(out, "SEED {} start={} count={}", seed, start, count).unwrap();
            let mut nviol = 0;
            for idx in start..start + count {
                let ops = gen_history(mix(seed, idx));
                let o = run_history(&ops, &mut stats, false);
                writeln!(out, "H {} {} {} {:016x} {:016x}", idx, ops.len(), o.calls, o.shape, o.log_hash).unwrap();
                for v in &o.viol {
                    nviol += 1;
                    writeln!(out, "V {} {} {} {}", idx, v.invariant, v.op_index, serde_json::to_string(&v.detail).unwrap()).unwrap();
                }
                if idx < start + samples {
                    writeln!(out, "SAMPLE {}", serde_json::to_string(&hist_json(seed, idx, &ops)).unwrap()).unwrap();
                }
            }
            let hexes = |s: &BTreeSet<u64>| -> Vec<String> { s.iter().map(|x| format!("{:016x}", x)).collect() };
            writeln!(
                out,
                "STATS {}",
                serde_json::to_string(&json!({
                    "counters": stats.c, "states": hexes(&stats.states), "transitions": hexes(&stats.transitions),
                    "shapes": hexes(&stats.shapes), "shapes_nontrivial": hexes(&stats.shapes_nontrivial)
                }))
                .unwrap()
            )
            .unwrap();
            writeln!(out, "END violations={}", nviol).unwrap();
            out.flush().unwrap();
        }
        "exec" => {
            let file = arg(&args, "--file").unwrap_or_else(|| die("--file required"));
            let verbose = args.iter().any(|a| a == "--verbose");
            let text = std::fs::read_to_string(file).unwrap_or_else(|e| die(&format!("cannot read {}: {}", file, e)));
            let v: Value = serde_json::from_str(&text).unwrap_or_else(|e| die(&format!("bad JSON: {}", e)));
            let ops: Vec<Op> = v
                .get("ops")
                .and_then(|o| o.as_array())
                .unwrap_or_else(|| die("no ops"))
                .iter()
                .map(|o| op_from_json(o).unwrap_or_else(|e| die(&e)))
                .collect();
            let idx = v.get("index").and_then(|x| x.as_u64()).unwrap_or(0);
            let mut stats = Stats::default();
            let o = run_history(&ops, &mut stats, verbose);
            for l in &o.log {
                println!("L {}", l);
            }
            println!("H {} {} {} {:016x} {:016x}", idx, ops.len(), o.calls, o.shape, o.log_hash);
            for vi in &o.viol {
                println!("V {} {} {} {}", idx, vi.invariant, vi.op_index, serde_json::to_string(&vi.detail).unwrap());
            }
            println!("END violations={}", o.viol.len());
        }
        _ => die("usage: regsim run|exec|gen ..."),
    }
}
